package main

import (
	"fmt"
	"go/token"
	"go/types"
	"os"
	"regexp"
	"sort"
	"strconv"
	"strings"
)

// State maps heap components to their current SMT value.
type State struct {
	comps map[string]*Term
}

func (s *State) Clone() *State {
	n := &State{comps: make(map[string]*Term, len(s.comps))}
	for k, v := range s.comps {
		n.comps[k] = v
	}
	return n
}

// Ctx holds what is shared by all queries generated for one unit (function or lemma).
type Ctx struct {
	enc         *Enc
	spec        *Spec
	consts      map[string]string // declared constants (name -> sort)
	order       []string
	n           int
	unit        string
	tree        *State          // state that recursive spec functions read (entry state of the unit)
	treeReads   map[string]bool // components read by recursive spec definitions
	inTree      int
	globalHook  func(name string) (*Term, bool)
	fuel        int               // 0 = default
	unfoldOnly  map[string]bool   // nil = every recursive definition
	unfoldDepth map[string]int    // per definition depth (default 1, or cx.fuel)
	epochs      map[string]*State // tree snapshots other than the entry tree, by epoch name
	epochKeys   map[string]string
	recReads    map[string]map[string]bool // per recursive definition: heap components it reads (transitively)
	freshRefs   map[string]bool            // terms that denote references allocated after the unit's entry
	frameInfo   map[string]frameInfo       // havoc constants: what they are known to agree with
	curRec      []string
	recCalls    map[string]map[string]bool
}

type frameInfo struct {
	base      *Term // the value before the havoc
	hasRegion bool  // the frame excludes a declared region (so old indices may have changed)
}

// pristine: t provably agrees with the entry value on every index that existed at entry (only
// fresh indices were stored to; havocs in between carried a full frame).
func (cx *Ctx) pristine(t, entry *Term) bool {
	for depth := 0; depth < 10000; depth++ {
		if same(t, entry) {
			return true
		}
		if t.Op == "store" {
			if !cx.freshRefs[t.Args[1].String()] {
				return false
			}
			t = t.Args[0]
			continue
		}
		if fi, ok := cx.frameInfo[t.Op]; ok && len(t.Args) == 0 {
			if fi.hasRegion {
				return false
			}
			t = fi.base
			continue
		}
		return false
	}
	return false
}

// entryBuilt: the term mentions only parameters, globals and entry-state components, so every
// reference in it existed when the unit was entered.
func (cx *Ctx) entryBuilt(t *Term) bool {
	syms := map[string]bool{}
	collectSyms(t, map[string]bool{}, syms)
	for s := range syms {
		if _, isConst := cx.consts[s]; !isConst {
			continue
		}
		if strings.HasSuffix(s, "@0") || strings.HasPrefix(s, "p_") || strings.HasPrefix(s, "g_") {
			continue
		}
		return false
	}
	return true
}

// epochName returns the symbol suffix for recursive definition 'name' evaluated against snapshot st:
// "" when everything the definition reads is unchanged since the unit's entry.
func (cx *Ctx) epochName(name string, st *State, args []*Term) string {
	return cx.epochNameF(name, st, args, false)
}

func (cx *Ctx) epochNameF(name string, st *State, args []*Term, force bool) string {
	if st == nil || st == cx.tree {
		return ""
	}
	var key strings.Builder
	changed, allPristine := false, true
	for _, cn := range sortedKeys(cx.recReads[name]) {
		now := st.Get(cx, cn)
		if !same(cx.tree.Get(cx, cn), now) {
			changed = true
			if !cx.pristine(now, cx.tree.Get(cx, cn)) {
				allPristine = false
			}
		}
		key.WriteString(cn + "=" + now.String() + "|")
	}
	if !changed {
		return ""
	}
	// Everything that existed at entry is unchanged, and the arguments reach only such objects
	// (references stored in old objects are old: heap reference invariant): same value as at entry.
	if allPristine && !force && !cx.spec.quantifiesOverRefs(name) {
		old := true
		for _, a := range args {
			// only arguments that can hold references into the tree matter
			if a.Sort != "Code" && a.Sort != SInt && a.Sort != "Slice" {
				continue
			}
			if !cx.entryBuilt(a) {
				old = false
				break
			}
		}
		if old {
			return ""
		}
	}
	if cx.epochs == nil {
		cx.epochs = map[string]*State{}
		cx.epochKeys = map[string]string{}
	}
	k := key.String()
	if e, ok := cx.epochKeys[k]; ok {
		return e
	}
	e := fmt.Sprintf("e%d", len(cx.epochs)+1)
	cx.epochKeys[k] = e
	cx.epochs[e] = st
	return e
}

// snapshotIfChanged: nil when nothing the recursive spec functions read differs from the unit's entry
// tree, otherwise a snapshot of st.
func (cx *Ctx) snapshotIfChanged(st *State) *State {
	if st == nil || st == cx.tree {
		return nil
	}
	for _, cn := range sortedKeys(cx.treeReads) {
		if !same(cx.tree.Get(cx, cn), st.Get(cx, cn)) {
			return st.Clone()
		}
	}
	return nil
}

// epochOf splits a recursive-definition symbol into its base name and tree epoch.
func epochOf(op string) (string, string) {
	if i := strings.Index(op, "!e"); i > 0 {
		return op[:i], op[i+1:]
	}
	return op, ""
}

func (cx *Ctx) treeFor(epoch string) *State {
	if epoch == "" {
		return cx.tree
	}
	return cx.epochs[epoch]
}

func NewCtx(enc *Enc, spec *Spec, unit string) *Ctx {
	return &Ctx{enc: enc, spec: spec, consts: map[string]string{}, unit: unit, treeReads: map[string]bool{}}
}

func (c *Ctx) Fresh(hint, sort string) *Term {
	c.n++
	name := fmt.Sprintf("%s!%d", mangleSym(hint), c.n)
	c.consts[name] = sort
	c.order = append(c.order, name)
	return V(name, sort)
}

func (c *Ctx) Named(name, sort string) *Term {
	if s, ok := c.consts[name]; ok {
		if s != sort {
			panic("constant " + name + " redeclared with sort " + sort + " (was " + s + ")")
		}
		return V(name, sort)
	}
	c.consts[name] = sort
	c.order = append(c.order, name)
	return V(name, sort)
}

func mangleSym(s string) string {
	var b strings.Builder
	for _, r := range s {
		if r == '_' || r == '.' || (r >= '0' && r <= '9') || (r >= 'a' && r <= 'z') || (r >= 'A' && r <= 'Z') {
			b.WriteRune(r)
		} else {
			b.WriteByte('_')
		}
	}
	return "v_" + b.String()
}

func (c *Ctx) InitState(tag string) *State {
	s := &State{comps: map[string]*Term{}}
	for _, n := range c.enc.compList {
		s.comps[n] = c.Named(n+"@"+tag, c.enc.comps[n].Sort)
	}
	return s
}

func (s *State) Get(c *Ctx, name string) *Term {
	if t, ok := s.comps[name]; ok {
		return t
	}
	comp, ok := c.enc.comps[name]
	if !ok {
		panic("unknown heap component " + name)
	}
	t := c.Named(name+"@late", comp.Sort)
	s.comps[name] = t
	return t
}

// Env is an evaluation environment for spec expressions.
type Env struct {
	cx         *Ctx
	st         *State
	old        *State
	vars       map[string]*Term
	epoch      string          // (unused)
	epochSt    *State          // tree snapshot recursive spec functions read (nil = the unit's entry tree)
	loopEntry  *State          // state when the enclosing loop was entered (for atLoopEntry(e))
	forceEpoch bool            // never identify a changed tree snapshot with the entry tree (lemma instances)
	epochSplit bool            // old(e) reads the tree snapshot epochOld instead of epochSt
	contract   *Contract       // the contract the clause belongs to (scope of identifier renames); may be nil
	prefer     map[string]bool // names to prefer when an unknown identifier has several candidates (loop-carried variables)
	epochOld   *State          // tree snapshot of the old() state (nil = the unit's entry tree)
}

func (e *Env) with(vars map[string]*Term) *Env {
	n := &Env{cx: e.cx, st: e.st, old: e.old, vars: map[string]*Term{}, epochSt: e.epochSt, loopEntry: e.loopEntry, forceEpoch: e.forceEpoch, epochSplit: e.epochSplit, epochOld: e.epochOld, contract: e.contract, prefer: e.prefer}
	for k, v := range e.vars {
		n.vars[k] = v
	}
	for k, v := range vars {
		n.vars[k] = v
	}
	return n
}

type evalErr string

func efail(f string, a ...interface{}) { panic(evalErr(fmt.Sprintf(f, a...))) }

// Eval evaluates a spec expression; errors are returned, never panics. An identifier the code no longer
// declares (a renamed parameter or local) is resolved to the one variable in scope that the contract does
// not mention and that makes the clause type-check (loop-carried variables preferred); the choice is
// remembered for the whole contract and reported on stderr. An ambiguous choice is not made.
func (env *Env) Eval(x *Expr) (*Term, error) {
	t, err := env.eval0(x)
	if err == nil || env.contract == nil {
		return t, err
	}
	return env.evalRenaming(x, err)
}

var unknownIdentRe = regexp.MustCompile(`^unknown identifier ([A-Za-z_][A-Za-z_0-9]*) `)

func (env *Env) evalRenaming(x *Expr, first error) (*Term, error) {
	c := env.contract
	m := unknownIdentRe.FindStringSubmatch(first.Error())
	if m == nil {
		return nil, first
	}
	mentioned := c.mentionedIdents()
	var cands []string
	used := map[string]bool{}
	for _, nw := range c.renames {
		used[nw] = true
	}
	for k := range env.vars {
		if mentioned[k] || used[k] || strings.HasPrefix(k, "$") || strings.HasPrefix(k, "result") || k == "err" || !token.IsIdentifier(k) {
			continue
		}
		cands = append(cands, k)
	}
	sort.Strings(cands)
	if os.Getenv("JVC_DBGRENAME") != "" {
		fmt.Fprintf(os.Stderr, "rename %s: candidates %v\n", m[1], cands)
	}
	type sol struct {
		assign map[string]string
		t      *Term
	}
	var sols []sol
	saved := c.renames
	var search func(assign map[string]string, name string, depth int)
	search = func(assign map[string]string, name string, depth int) {
		if depth > 4 || len(sols) > 8 {
			return
		}
		for _, cand := range cands {
			taken := false
			for _, v := range assign {
				if v == cand {
					taken = true
				}
			}
			if taken {
				continue
			}
			next := map[string]string{}
			for k, v := range saved {
				next[k] = v
			}
			for k, v := range assign {
				next[k] = v
			}
			next[name] = cand
			c.renames = next
			t, err := env.eval0(x)
			c.renames = saved
			na := map[string]string{}
			for k, v := range assign {
				na[k] = v
			}
			na[name] = cand
			if err == nil {
				sols = append(sols, sol{na, t})
				continue
			}
			if m2 := unknownIdentRe.FindStringSubmatch(err.Error()); m2 != nil && m2[1] != name {
				if _, seen := na[m2[1]]; !seen {
					search(na, m2[1], depth+1)
				}
			}
		}
	}
	search(map[string]string{}, m[1], 0)
	if len(sols) > 1 && env.prefer != nil {
		var pref []sol
		for _, s := range sols {
			all := true
			for _, v := range s.assign {
				if !env.prefer[v] {
					all = false
				}
			}
			if all {
				pref = append(pref, s)
			}
		}
		if len(pref) == 1 {
			sols = pref
		}
	}
	if len(sols) > 1 {
		// still ambiguous: keep the assignments under which every other pre/postcondition of the contract
		// type-checks as well (errors about further unknown identifiers do not count)
		var ok []sol
		for _, s := range sols {
			next := map[string]string{}
			for k, v := range saved {
				next[k] = v
			}
			for k, v := range s.assign {
				next[k] = v
			}
			c.renames = next
			bad := false
			probe := *env
			if probe.old == nil {
				probe.old = probe.st
			}
			for _, cls := range [][]*Clause{c.Requires, c.Ensures} {
				for _, cl := range cls {
					if _, err := probe.eval0(cl.Expr); err != nil && unknownIdentRe.FindStringSubmatch(err.Error()) == nil {
						bad = true
					}
				}
			}
			c.renames = saved
			if !bad {
				ok = append(ok, s)
			}
		}
		if len(ok) == 1 {
			sols = ok
		}
	}
	if len(sols) != 1 {
		return nil, first
	}
	if c.renames == nil {
		c.renames = map[string]string{}
	} else {
		cp := map[string]string{}
		for k, v := range c.renames {
			cp[k] = v
		}
		c.renames = cp
	}
	for k, v := range sols[0].assign {
		c.renames[k] = v
		fmt.Fprintf(os.Stderr, "jvc: note: contract of %s names %q, which the code no longer declares; resolved to %q\n", c.Key, k, v)
	}
	return sols[0].t, nil
}

func (env *Env) eval0(x *Expr) (t *Term, err error) {
	defer func() {
		if r := recover(); r != nil {
			switch v := r.(type) {
			case evalErr:
				err = fmt.Errorf("%s (in %s)", string(v), x)
			case string:
				err = fmt.Errorf("%s (in %s)", v, x)
			default:
				panic(r)
			}
		}
	}()
	return env.ev(x), nil
}

func (env *Env) EvalBool(x *Expr) (*Term, error) {
	t, err := env.Eval(x)
	if err != nil {
		return nil, err
	}
	if t.Sort != SBool {
		return nil, fmt.Errorf("expected a boolean, got %s (in %s)", t.Sort, x)
	}
	return t, nil
}

// ResolveType maps a spec type name to (sort, Go type).
func (cx *Ctx) ResolveType(name string) (string, types.Type) {
	enc := cx.enc
	if strings.HasPrefix(name, "`") {
		return strings.Trim(name, "`"), nil
	}
	switch name {
	case "int", "Int":
		return SInt, types.Typ[types.Int]
	case "string", "String":
		return SStr, types.Typ[types.String]
	case "bool", "Bool":
		return SBool, types.Typ[types.Bool]
	case "Any", "any":
		return "Any", types.NewInterfaceType(nil, nil)
	case "ref":
		return SInt, nil
	}
	if a, ok := cx.spec.aliases[name]; ok {
		return cx.ResolveType(a)
	}
	if strings.HasPrefix(name, "map[") {
		j := strings.IndexByte(name, ']')
		_, kt := cx.ResolveType(name[len("map["):j])
		_, vt := cx.ResolveType(name[j+1:])
		if kt == nil || vt == nil {
			efail("unknown map type %s", name)
		}
		T := types.NewMap(kt, vt)
		enc.mapComp(T)
		return SInt, T
	}
	if strings.HasPrefix(name, "mapval[") {
		j := strings.IndexByte(name, ']')
		ks, kt := cx.ResolveType(name[len("mapval["):j])
		vs, vt := cx.ResolveType(name[j+1:])
		var gt types.Type
		if kt != nil && vt != nil {
			gt = mapValT{types.NewMap(kt, vt)}
		}
		return enc.MapSort(ks, vs), gt
	}
	if obj := enc.tpkg.Scope().Lookup(name); obj != nil {
		if tn, ok := obj.(*types.TypeName); ok {
			return enc.SortOf(tn.Type()), tn.Type()
		}
	}
	if _, ok := enc.dts[name]; ok {
		return name, nil
	}
	if enc.usorts[name] {
		return name, nil
	}
	if strings.HasPrefix(name, "*") {
		_, gt := cx.ResolveType(name[1:])
		if gt == nil {
			efail("unknown type %s", name)
		}
		return SInt, types.NewPointer(gt)
	}
	if strings.HasPrefix(name, "[]") {
		_, gt := cx.ResolveType(name[2:])
		if gt == nil {
			efail("unknown type %s", name)
		}
		T := types.NewSlice(gt)
		return enc.SortOf(T), T
	}
	if obj := enc.tpkg.Scope().Lookup(name); obj != nil {
		if tn, ok := obj.(*types.TypeName); ok {
			return enc.SortOf(tn.Type()), tn.Type()
		}
	}
	efail("unknown type %s", name)
	return "", nil
}

func (env *Env) comp(name string) *Term {
	if env.cx.inTree > 0 {
		env.cx.treeReads[name] = true
		if n := len(env.cx.curRec); n > 0 {
			if env.cx.recReads == nil {
				env.cx.recReads = map[string]map[string]bool{}
			}
			if env.cx.recReads[env.cx.curRec[n-1]] == nil {
				env.cx.recReads[env.cx.curRec[n-1]] = map[string]bool{}
			}
			env.cx.recReads[env.cx.curRec[n-1]][name] = true
		}
	}
	return env.st.Get(env.cx, name)
}

func (env *Env) ev(x *Expr) *Term {
	enc := env.cx.enc
	switch x.Kind {
	case "int":
		n, _ := strconv.ParseInt(x.Val, 10, 64)
		return IntLit(n)
	case "str":
		return StrLit(x.Val)
	case "bool":
		return BoolLit(x.Val == "true")
	case "nil":
		return &Term{Op: "#nil", Sort: "?"}
	case "ident":
		if t, ok := env.vars[x.Name]; ok {
			return t
		}
		if env.contract != nil {
			if nw, ok := env.contract.renames[x.Name]; ok {
				if t, ok := env.vars[nw]; ok {
					return t
				}
			}
		}
		if c, ok := enc.comps[x.Name]; ok {
			_ = c
			return env.comp(x.Name)
		}
		if c, ok := enc.ctorOf[x.Name]; ok && len(c.Fields) == 0 {
			return V(x.Name, enc.ctorDT[x.Name])
		}
		if f, ok := enc.funs[x.Name]; ok && len(f.Args) == 0 {
			return V(x.Name, f.Ret)
		}
		if d, ok := env.cx.spec.defs[x.Name]; ok && len(d.Params) == 0 {
			return env.callDef(d, nil)
		}
		if env.cx.globalHook != nil {
			if t, ok := env.cx.globalHook(x.Name); ok {
				return t
			}
		}
		efail("unknown identifier %s", x.Name)
	case "call":
		if x.Name == "atLoopEntry" && len(x.Args) == 1 {
			if env.loopEntry == nil {
				efail("atLoopEntry() is only meaningful in loop invariants")
			}
			n := &Env{cx: env.cx, st: env.loopEntry, old: env.old, vars: env.vars, epochSt: env.epochSt, loopEntry: env.loopEntry, epochSplit: env.epochSplit, epochOld: env.epochOld, contract: env.contract, prefer: env.prefer}
			if env.epochSplit {
				n.epochSt = env.cx.snapshotIfChanged(env.loopEntry)
			}
			return n.ev(x.Args[0])
		}
		return env.call(x)
	case "old":
		if env.old == nil {
			efail("old() not allowed here")
		}
		n := &Env{cx: env.cx, st: env.old, old: env.old, vars: env.vars, epochSt: env.epochSt, contract: env.contract, prefer: env.prefer}
		if env.epochSplit {
			n.epochSt, n.epochSplit, n.epochOld = env.epochOld, true, env.epochOld
		}
		return n.ev(x.X)
	case "unary":
		a := env.ev(x.X)
		if x.Op == "!" {
			env.want(a, SBool)
			return Not(a)
		}
		env.want(a, SInt)
		return Sub(IntLit(0), a)
	case "deref":
		p := env.ev(x.X)
		pt, ok := under(p.T).(*types.Pointer)
		if !ok {
			efail("cannot dereference %s", x.X)
		}
		if _, isStruct := pt.Elem().Underlying().(*types.Struct); isStruct {
			efail("dereferencing a struct pointer is not supported; use fields")
		}
		c := enc.derefComp(pt.Elem())
		return Select(env.comp(c.Name), p).WithT(pt.Elem())
	case "binary":
		return env.binary(x)
	case "cond":
		c := env.ev(x.X)
		env.want(c, SBool)
		a, b := env.ev(x.Y), env.ev(x.Z)
		a, b = env.unify(a, b)
		return Ite(c, a, b)
	case "field":
		return env.field(env.ev(x.X), x.Name)
	case "index":
		return env.index(env.ev(x.X), env.ev(x.Y))
	case "slice":
		efail("slice expressions are not supported in specs")
	case "let":
		v := env.ev(x.X)
		return env.with(map[string]*Term{x.Name: v}).ev(x.Y)
	case "quant":
		vars := map[string]*Term{}
		var bvs []*Term
		for _, qv := range x.Vars {
			s, gt := env.cx.ResolveType(qv.Type)
			env.cx.n++
			bv := V(fmt.Sprintf("q_%s_%d", qv.Name, env.cx.n), s)
			bv.T = gt
			vars[qv.Name] = bv
			bvs = append(bvs, bv)
		}
		inner := env.with(vars)
		body := inner.ev(x.X)
		env.want(body, SBool)
		var pats [][]*Term
		for _, p := range x.Pats {
			var ts []*Term
			for _, pe := range p {
				ts = append(ts, inner.ev(pe))
			}
			pats = append(pats, ts)
		}
		if x.Op == "forall" {
			return Forall(bvs, body, pats...)
		}
		return Exists(bvs, body)
	}
	efail("cannot evaluate %s", x.Kind)
	return nil
}

func under(t types.Type) types.Type {
	if t == nil {
		return nil
	}
	return t.Underlying()
}

func (env *Env) want(t *Term, sort string) {
	if t.Sort != sort {
		efail("expected sort %s, got %s for %s", sort, t.Sort, t)
	}
}

// unify resolves untyped nil against the other operand.
func (env *Env) unify(a, b *Term) (*Term, *Term) {
	if a.Op == "#nil" && b.Op == "#nil" {
		efail("nil == nil is ambiguous")
	}
	if a.Op == "#nil" {
		return env.cx.enc.Zero(b.Sort), b
	}
	if b.Op == "#nil" {
		return a, env.cx.enc.Zero(a.Sort)
	}
	if a.Sort != b.Sort {
		efail("sort mismatch: %s : %s  vs  %s : %s", a, a.Sort, b, b.Sort)
	}
	return a, b
}

func (env *Env) binary(x *Expr) *Term {
	a, b := env.ev(x.X), env.ev(x.Y)
	switch x.Op {
	case "&&":
		env.want(a, SBool)
		env.want(b, SBool)
		return And(a, b)
	case "||":
		env.want(a, SBool)
		env.want(b, SBool)
		return Or(a, b)
	case "==>":
		env.want(a, SBool)
		env.want(b, SBool)
		return Imp(a, b)
	case "<==>":
		env.want(a, SBool)
		env.want(b, SBool)
		return Eq(a, b)
	case "==":
		a, b = env.unify(a, b)
		return Eq(a, b)
	case "!=":
		a, b = env.unify(a, b)
		return Neq(a, b)
	case "<", "<=", ">", ">=":
		if a.Sort == SStr && b.Sort == SStr {
			switch x.Op {
			case "<":
				return App("str.<", SBool, a, b)
			case "<=":
				return App("str.<=", SBool, a, b)
			case ">":
				return App("str.<", SBool, b, a)
			default:
				return App("str.<=", SBool, b, a)
			}
		}
		env.want(a, SInt)
		env.want(b, SInt)
		return cmp(x.Op, a, b)
	case "+", "++":
		if a.Sort == SStr && b.Sort == SStr {
			return Concat(a, b)
		}
		env.want(a, SInt)
		env.want(b, SInt)
		return Add(a, b)
	case "-":
		env.want(a, SInt)
		env.want(b, SInt)
		return Sub(a, b)
	case "*":
		env.want(a, SInt)
		env.want(b, SInt)
		return App("*", SInt, a, b)
	case "/":
		return App("div", SInt, a, b)
	case "%":
		return App("mod", SInt, a, b)
	}
	efail("unknown operator %s", x.Op)
	return nil
}

func (env *Env) field(x *Term, name string) *Term {
	enc := env.cx.enc
	if x.T != nil {
		if obj, path, _ := types.LookupFieldOrMethod(x.T, true, enc.tpkg, name); obj != nil {
			if _, ok := obj.(*types.Var); ok {
				cur := x
				T := x.T
				for _, idx := range path {
					if p, ok := T.Underlying().(*types.Pointer); ok {
						st := p.Elem()
						su := st.Underlying().(*types.Struct)
						c := enc.fieldComp(st, idx)
						cur = Select(env.comp(c.Name), cur)
						T = su.Field(idx).Type()
					} else if su, ok := T.Underlying().(*types.Struct); ok {
						sn := enc.SortOf(T)
						_ = sn
						cur = enc.Sel("sel_"+enc.structName(T)+"_"+su.Field(idx).Name(), cur)
						T = su.Field(idx).Type()
					} else {
						efail("cannot select %s from %s", name, T)
					}
					cur = cur.WithT(T)
				}
				return cur
			}
		}
	}
	// spec datatypes / map values / slices
	if strings.HasPrefix(x.Sort, "Map_") {
		switch name {
		case "dom":
			return enc.MapDom(x)
		case "val":
			return enc.MapVal(x)
		case "card":
			return enc.MapCard(x)
		}
	}
	if x.Sort == "Slice" {
		switch name {
		case "arr", "off", "len", "cap":
			return enc.Sel("sl_"+name, x)
		}
	}
	for _, cand := range []string{x.Sort + "_" + name, "sel_" + strings.TrimPrefix(x.Sort, "S_") + "_" + name} {
		if _, ok := enc.selOf[cand]; ok {
			return enc.Sel(cand, x)
		}
	}
	efail("no field %s on %s (sort %s, type %v)", name, x, x.Sort, x.T)
	return nil
}

func (env *Env) elemType(x *Term) (string, types.Type) {
	enc := env.cx.enc
	switch u := under(x.T).(type) {
	case *types.Slice:
		return enc.SortOf(u.Elem()), u.Elem()
	case *types.Array:
		return enc.SortOf(u.Elem()), u.Elem()
	}
	efail("cannot determine the element type of %s (type %v)", x, x.T)
	return "", nil
}

func (env *Env) mapValue(m *Term) *Term {
	enc := env.cx.enc
	if strings.HasPrefix(m.Sort, "Map_") {
		return m
	}
	if mt, ok := under(m.T).(*types.Map); ok {
		c := enc.mapComp(mt)
		r := Select(env.comp(c.Name), m)
		r.T = nil
		return r.WithT(mapValT{mt})
	}
	efail("%s is not a map (sort %s, type %v)", m, m.Sort, m.T)
	return nil
}

// mapValT tags a map *value* term with the Go map type it came from.
type mapValT struct{ *types.Map }

func (env *Env) index(x, i *Term) *Term {
	enc := env.cx.enc
	if x.Sort == "Slice" {
		es, et := env.elemType(x)
		env.want(i, SInt)
		c := enc.cellsComp(es)
		arr := Select(env.comp(c.Name), enc.Sel("sl_arr", x))
		return Select(arr, i).WithT(et)
	}
	if _, ok := under(x.T).(*types.Map); ok || strings.HasPrefix(x.Sort, "Map_") {
		mv := env.mapValue(x)
		r := Select(enc.MapVal(mv), i)
		if mt, ok := mv.T.(mapValT); ok {
			r = r.WithT(mt.Elem())
		}
		return r
	}
	if _, _, ok := arrParts(x.Sort); ok {
		return Select(x, i)
	}
	if x.Sort == SStr {
		env.want(i, SInt)
		return App("str.at", SStr, x, i)
	}
	efail("cannot index %s (sort %s)", x, x.Sort)
	return nil
}

func (env *Env) call(x *Expr) *Term {
	enc := env.cx.enc
	spec := env.cx.spec
	if d, ok := spec.defs[x.Name]; ok {
		if len(d.Params) != len(x.Args) {
			efail("%s expects %d arguments", x.Name, len(d.Params))
		}
		var args []*Term
		for _, a := range x.Args {
			args = append(args, env.ev(a))
		}
		return env.callDef(d, args)
	}
	var args []*Term
	for _, a := range x.Args {
		args = append(args, env.ev(a))
	}
	nargs := func(n int) {
		if len(args) != n {
			efail("%s expects %d arguments", x.Name, n)
		}
	}
	switch x.Name {
	case "len":
		nargs(1)
		a := args[0]
		switch {
		case a.Sort == SStr:
			return App("str.len", SInt, a)
		case a.Sort == "Slice":
			return enc.Sel("sl_len", a)
		default:
			return enc.MapCard(env.mapValue(a))
		}
	case "cap":
		nargs(1)
		return enc.Sel("sl_cap", args[0])
	case "has":
		nargs(2)
		return Select(enc.MapDom(env.mapValue(args[0])), args[1])
	case "mapof":
		nargs(1)
		return env.mapValue(args[0])
	case "emptyOf":
		// the empty map value of the same sort as the argument (a map or map value)
		nargs(1)
		mv := env.mapValue(args[0])
		return enc.EmptyMap(mv.Sort).WithT(mv.T)
	case "fresh":
		nargs(1)
		if env.old == nil {
			efail("fresh() needs a pre-state")
		}
		return And(Gt(args[0], env.old.Get(env.cx, "alloc")), Le(args[0], env.comp("alloc")))
	case "allocated":
		nargs(1)
		return And(Ge(args[0], IntLit(0)), Le(args[0], env.comp("alloc")))
	case "hasPrefix":
		nargs(2)
		return App("str.prefixof", SBool, args[1], args[0])
	case "hasSuffix":
		nargs(2)
		return App("str.suffixof", SBool, args[1], args[0])
	case "contains":
		nargs(2)
		return App("str.contains", SBool, args[0], args[1])
	case "substr":
		nargs(3)
		return App("str.substr", SStr, args[0], args[1], args[2])
	case "indexof":
		nargs(3)
		return App("str.indexof", SInt, args[0], args[1], args[2])
	case "store":
		nargs(3)
		return Store(args[0], args[1], args[2])
	case "select":
		nargs(2)
		return Select(args[0], args[1])
	case "cells":
		// cells(sl): the backing array of a slice, as an (Array Int E)
		nargs(1)
		es, _ := env.elemType(args[0])
		c := enc.cellsComp(es)
		return Select(env.comp(c.Name), enc.Sel("sl_arr", args[0]))
	case "isKeyword", "isUniverse":
		// oracle sets taken from the toolchain at check time (go/token, go/types), independent of reserved.go
		nargs(1)
		var words []string
		if x.Name == "isKeyword" {
			for t := token.BREAK; t <= token.VAR; t++ {
				if t.IsKeyword() {
					words = append(words, t.String())
				}
			}
		} else {
			words = append(words, types.Universe.Names()...)
		}
		var ds []*Term
		for _, w := range words {
			ds = append(ds, Eq(args[0], StrLit(w)))
		}
		return Or(ds...)
	case "asCode":
		nargs(1)
		if args[0].T != nil {
			if cn := enc.CodeCtor(args[0].T); cn != "" {
				return enc.Mk(cn, args[0]).WithT(enc.codeT)
			}
		}
		efail("asCode: %s (type %v) does not implement Code", args[0], args[0].T)
	}
	if strings.HasPrefix(x.Name, "is_") {
		if _, ok := enc.ctorOf[x.Name[3:]]; ok {
			nargs(1)
			return enc.Is(x.Name[3:], args[0])
		}
	}
	if c, ok := enc.ctorOf[x.Name]; ok {
		nargs(len(c.Fields))
		for i := range args {
			if args[i].Op == "#nil" {
				args[i] = enc.Zero(c.Fields[i].Sort)
			}
		}
		return enc.Mk(x.Name, args...)
	}
	if _, ok := enc.selOf[x.Name]; ok {
		nargs(1)
		return enc.Sel(x.Name, args[0])
	}
	if f, ok := enc.funs[x.Name]; ok {
		nargs(len(f.Args))
		for i := range args {
			if args[i].Op == "#nil" {
				args[i] = enc.Zero(f.Args[i])
			}
			if args[i].Sort != f.Args[i] {
				efail("argument %d of %s: got sort %s, want %s", i+1, x.Name, args[i].Sort, f.Args[i])
			}
		}
		if x.Name == "quote" && len(args) == 1 && args[0].Op == "#str" {
			return quoteTerm(args[0]) // strconv.Quote of a literal is evaluated
		}
		name := x.Name
		rd, isRec := spec.recdefs[x.Name]
		if isRec {
			if len(env.cx.curRec) > 0 {
				if env.cx.recCalls == nil {
					env.cx.recCalls = map[string]map[string]bool{}
				}
				cur := env.cx.curRec[len(env.cx.curRec)-1]
				if env.cx.recCalls[cur] == nil {
					env.cx.recCalls[cur] = map[string]bool{}
				}
				env.cx.recCalls[cur][x.Name] = true
			}
			if e := env.cx.epochNameF(x.Name, env.epochSt, args, env.forceEpoch); e != "" {
				name = x.Name + "!" + e
				enc.declFun(name, f.Args, f.Ret)
			}
		}
		r := App(name, f.Ret, args...)
		if isRec && rd.RetT != nil {
			r.T = rd.RetT
		}
		return r
	}
	efail("unknown function %s", x.Name)
	return nil
}

func (env *Env) callDef(d *Def, args []*Term) *Term {
	vars := map[string]*Term{}
	for i, p := range d.Params {
		a := args[i]
		s, gt := env.cx.ResolveType(p.Type)
		if a.Op == "#nil" {
			a = env.cx.enc.Zero(s)
		}
		if a.Sort != s {
			efail("argument %s of %s: got sort %s, want %s", p.Name, d.Name, a.Sort, s)
		}
		if gt != nil {
			if _, isIface := gt.Underlying().(*types.Interface); !(isIface && a.T != nil) {
				a = a.WithT(gt)
			}
		}
		vars[p.Name] = a
	}
	// defs see only their parameters (hygiene), but the caller's state
	n := &Env{cx: env.cx, st: env.st, old: env.old, vars: vars, epochSt: env.epochSt, loopEntry: env.loopEntry, forceEpoch: env.forceEpoch, epochSplit: env.epochSplit, epochOld: env.epochOld, contract: env.contract, prefer: env.prefer}
	r := n.ev(d.Body)
	if d.Ret != "" {
		s, gt := env.cx.ResolveType(d.Ret)
		if r.Sort != s {
			efail("body of %s has sort %s, declared %s", d.Name, r.Sort, s)
		}
		if gt != nil && r.T == nil {
			r = r.WithT(gt)
		}
	}
	return r
}
