package main

import (
	"strconv"
	"fmt"
	"go/constant"
	"go/types"
	"strings"

	"golang.org/x/tools/go/ssa"
)

// Assumed contracts of the standard-library functions jennifer calls (the trusted base).
// Each entry is (name, human-readable assumed contract); the models below implement exactly these.
var trustedBase = map[string]string{
	"fmt.Sprintf":                       "fmt.Sprintf with a constant format of literal text and %s %d %q %v %#v %T verbs returns the concatenation of the pieces (%s of a string: the string; %d: itoa; %q: quote; %#v: goSyntax; %T: typeNameOf); any other format is opaque",
	"fmt.Fprintf":                       "fmt.Fprintf(w, constant format, ...) performs exactly one w.Write of the Sprintf text and returns that Write's error",
	"fmt.Fprint":                        "fmt.Fprint(w, strings...) performs exactly one w.Write of the concatenated operands and returns that Write's error",
	"fmt.Errorf":                        "fmt.Errorf returns a non-nil error and has no other effect",
	"(*bytes.Buffer).Write":             "(*bytes.Buffer).Write appends and never fails",
	"(*bytes.Buffer).String":            "(*bytes.Buffer).String / Bytes return everything written so far; the zero Buffer is empty",
	"(*bytes.Buffer).Bytes":             "(*bytes.Buffer).String / Bytes return everything written so far; the zero Buffer is empty",
	"io.Writer.Write":                   "w.Write(p) on an arbitrary io.Writer: unconstrained (n, err); the ghost log records the call and its argument",
	"strings.Contains":                  "strings.Contains/HasPrefix/HasSuffix are the SMT string predicates",
	"strings.HasPrefix":                 "strings.Contains/HasPrefix/HasSuffix are the SMT string predicates",
	"strings.HasSuffix":                 "strings.Contains/HasPrefix/HasSuffix are the SMT string predicates",
	"strings.LastIndex":                 "strings.LastIndex(s, sep) = lastIndex(s, sep): -1 iff sep does not occur, else 0 <= r <= len(s)-len(sep), sep occurs at r and nowhere later",
	"strings.ToLower":                   "strings.ToLower = toLower (uninterpreted)",
	"strconv.Quote":                     "strconv.Quote(s) = quote(s) (uninterpreted; axioms in std.spec)",
	"strconv.QuoteRune":                 "strconv.QuoteRune(r) = quoteRune(r) (uninterpreted)",
	"strconv.CanBackquote":              "strconv.CanBackquote(s) = canBackquote(s) (uninterpreted; axioms in std.spec)",
	"sort.Strings":                      "sort.Strings(a) permutes a into ascending order and touches nothing else",
	"go/format.Source":                  "go/format.Source(b) returns (fmtOf(b), nil) or (_, non-nil error); it succeeds only if b parses, and then fmtOf(b) parses too",
	"os.WriteFile":                      "os.WriteFile performs one mutating filesystem operation on the named file (ghost fslog+1, fsname, fsdata) and returns an unconstrained error",
	"regexp.MustCompile":                "regexp.MustCompile(`[^a-z0-9]`).ReplaceAllString(s, \"\") = stripNonAlnum(s), which satisfies alnumLower",
	"(*regexp.Regexp).ReplaceAllString": "regexp.MustCompile(`[^a-z0-9]`).ReplaceAllString(s, \"\") = stripNonAlnum(s), which satisfies alnumLower",
	"unicode/utf8.DecodeRuneInString":   "utf8.DecodeRuneInString(s) = (firstRune(s), runeLen(s)) with the axioms of std.spec",
	"unicode.IsDigit":                   "unicode.IsDigit(r) = isDigitRune(r) (uninterpreted; axioms in std.spec)",
	"strings.ContainsAny":               "strings.ContainsAny(s, chars) for a short constant ASCII chars = disjunction of strings.Contains(s, c)",
	"strconv.Itoa":                      "strconv.Itoa(i) = itoa(i), the decimal text %d prints",
	"(*strings.Builder)":                "a local strings.Builder is the text written to it: WriteString/WriteByte append, Len and String read it, Reset empties it",
	"strings.TrimLeft":                  "strings.TrimLeft(s, \"0123456789\") = trimDigits(s): on an [a-z0-9]* string the result is empty or starts with a letter (axiom trim-digits)",
}

// pure std-lib packages: functions that cannot touch jennifer's heap or the ghost state
var pureStdPkgs = map[string]bool{"strings": true, "strconv": true, "unicode": true, "unicode/utf8": true, "math": true, "bytes": false,
	"sort": false, "fmt": false, "errors": true, "path": true, "path/filepath": true, "regexp": true, "math/bits": true}

// opaqueCall models a call the engine has no contract for: results are unconstrained; functions of
// pure std-lib packages leave the state alone, anything else may change everything it could reach
// (every component is havoced). Obligations that depend on the result can then not be proved.
func (u *Unit) opaqueCall(p *Path, x *ssa.Call, name string) {
	enc := u.v.enc
	u.noteUnmodelled("call to " + name + " has no assumed contract: result unconstrained")
	pkgPath := ""
	if f, ok := x.Call.Value.(*ssa.Function); ok && f.Pkg != nil {
		pkgPath = f.Pkg.Pkg.Path()
	}
	if !pureStdPkgs[pkgPath] {
		u.havocAll(p)
	}
	sig := x.Call.Signature()
	var rs []*Term
	for i := 0; i < sig.Results().Len(); i++ {
		T := sig.Results().At(i).Type()
		r := u.cx.Fresh("opaque_"+mangle(name), enc.SortOf(T)).WithT(T)
		u.assumeWF(p, r, T)
		rs = append(rs, r)
	}
	u.setResults(p, x, rs)
}

// havocAll forgets everything about the heap and the ghost state (allocation only grows).
func (u *Unit) havocAll(p *Path) {
	enc := u.v.enc
	before := p.st.Get(u.cx, "alloc")
	for _, cn := range enc.compList {
		comp := enc.comps[cn]
		nv := u.cx.Fresh(cn+"@havoc", comp.Sort)
		if cn == "alloc" {
			p.assume(Ge(nv, before))
		}
		if u.cx.frameInfo == nil {
			u.cx.frameInfo = map[string]frameInfo{}
		}
		u.cx.frameInfo[nv.Op] = frameInfo{base: p.st.Get(u.cx, cn), hasRegion: true}
		p.st.comps[cn] = nv
	}
	for _, cn := range enc.compList {
		if inv := u.refInvariant(cn, p.st.Get(u.cx, cn), p.st.Get(u.cx, "alloc")); inv != nil {
			p.assume(inv)
		}
	}
}

func (u *Unit) noteUnmodelled(s string) {
	for _, x := range u.unmodelled {
		if x == s {
			return
		}
	}
	u.unmodelled = append(u.unmodelled, s)
}

func (u *Unit) useTrusted(name string) {
	if u.trusted == nil {
		u.trusted = map[string]bool{}
	}
	u.trusted[name] = true
}

func (u *Unit) specFun(name string, args []string, ret string) {
	u.v.enc.declFun(name, args, ret)
}

var errType = types.Universe.Lookup("error").Type()

// varargs returns the elements of a variadic []interface{} argument with statically known length.
func (u *Unit) varargs(p *Path, sl *Term, elemSort string) []*Term {
	enc := u.v.enc
	if sl.Op != "mk_Slice" {
		if same(sl, enc.Zero("Slice")) {
			return nil
		}
		return nil
	}
	n := enc.Sel("sl_len", sl)
	if n.Op != "#int" {
		u.fail("variadic argument of unknown length")
	}
	var k int
	fmt.Sscan(n.Lit, &k)
	cells := p.st.Get(u.cx, enc.cellsComp(elemSort).Name)
	arr := Select(cells, enc.Sel("sl_arr", sl))
	var out []*Term
	for j := 0; j < k; j++ {
		out = append(out, Select(arr, IntLit(int64(j))))
	}
	return out
}

// formatText models Sprintf for constant formats; ok=false when the format is not supported.
func (u *Unit) formatText(format string, args []*Term) (*Term, bool) {
	enc := u.v.enc
	out := StrLit("")
	ai := 0
	i := 0
	for i < len(format) {
		c := format[i]
		if c != '%' {
			j := strings.IndexByte(format[i:], '%')
			if j < 0 {
				j = len(format) - i
			}
			out = Concat(out, StrLit(format[i:i+j]))
			i += j
			continue
		}
		if i+1 >= len(format) {
			return nil, false
		}
		verb := format[i+1 : i+2]
		i += 2
		if verb == "%" {
			out = Concat(out, StrLit("%"))
			continue
		}
		if verb == "#" && i < len(format) && format[i] == 'v' {
			verb = "#v"
			i++
		}
		if ai >= len(args) {
			return nil, false
		}
		a := args[ai]
		ai++
		if a.Sort != "Any" {
			return nil, false
		}
		switch verb {
		case "s":
			u.specFun("fmtS", []string{"Any"}, SStr)
			u.specFun("errText", []string{SInt}, SStr)
			out = Concat(out, Ite(enc.Is("A_string", a), enc.Sel("A_string_v", a),
				Ite(enc.Is("A_other", a), App("errText", SStr, enc.Sel("A_other_v", a)), App("fmtS", SStr, a))))
		case "d":
			u.specFun("itoa", []string{SInt}, SStr)
			u.specFun("fmtD", []string{"Any"}, SStr)
			out = Concat(out, Ite(enc.Is("A_int", a), App("itoa", SStr, enc.Sel("A_int_v", a)), App("fmtD", SStr, a)))
		case "q":
			u.specFun("quote", []string{SStr}, SStr)
			u.specFun("fmtQ", []string{"Any"}, SStr)
			if a.Op == "A_string" && len(a.Args) == 1 && a.Args[0].Op == "#str" {
				out = Concat(out, quoteTerm(a.Args[0])) // %q of a constant string: strconv.Quote evaluated now
			} else {
				out = Concat(out, Ite(enc.Is("A_string", a), App("quote", SStr, enc.Sel("A_string_v", a)), App("fmtQ", SStr, a)))
			}
		case "#v":
			u.specFun("goSyntax", []string{"Any"}, SStr)
			out = Concat(out, App("goSyntax", SStr, a))
		case "T":
			u.specFun("typeNameOf", []string{"Any"}, SStr)
			out = Concat(out, App("typeNameOf", SStr, a))
		case "v":
			u.specFun("fmtV", []string{"Any"}, SStr)
			out = Concat(out, App("fmtV", SStr, a))
		default:
			return nil, false
		}
	}
	if ai != len(args) {
		return nil, false
	}
	return out, true
}

func constString(v ssa.Value) (string, bool) {
	if c, ok := v.(*ssa.Const); ok && c.Value != nil {
		if s, ok := stringConst(c); ok {
			return s, true
		}
	}
	return "", false
}

func (u *Unit) execExtern(p *Path, x *ssa.Call, name string, args []*Term) {
	enc := u.v.enc
	st := p.st
	set1 := func(t *Term) { u.setResults(p, x, []*Term{t}) }
	if _, ok := trustedBase[name]; ok {
		u.useTrusted(name)
	}
	switch name {
	case "fmt.Sprintf":
		format, isConst := constString(x.Call.Args[0])
		if isConst {
			if t, ok := u.formatText(format, u.varargs(p, args[1], "Any")); ok {
				set1(t)
				return
			}
		}
		// a format that is not a constant: the result is some function of the format and the operands
		// (uninterpreted fmtDyn over the operand cells and their number)
		u.specFun("fmtDyn", []string{SStr, ArrSort(SInt, "Any"), SInt}, SStr)
		cellsAny := p.st.Get(u.cx, enc.cellsComp("Any").Name)
		set1(App("fmtDyn", SStr, args[0], Select(cellsAny, enc.Sel("sl_arr", args[1])), enc.Sel("sl_len", args[1])))
	case "fmt.Errorf":
		e := u.cx.Fresh("err", SInt)
		p.assume(Gt(e, IntLit(0)))
		set1(e)
	case "fmt.Fprintf", "fmt.Fprint":
		w := args[0]
		var text *Term
		if name == "fmt.Fprintf" {
			format, isConst := constString(x.Call.Args[1])
			ok := false
			if isConst {
				text, ok = u.formatText(format, u.varargs(p, args[2], "Any"))
			}
			if !ok {
				text = u.cx.Fresh("fprintf_opaque", SStr)
			}
		} else {
			text = StrLit("")
			for _, a := range u.varargs(p, args[1], "Any") {
				u.specFun("fmtV", []string{"Any"}, SStr)
				text = Concat(text, Ite(enc.Is("A_string", a), enc.Sel("A_string_v", a), App("fmtV", SStr, a)))
			}
		}
		n, err := u.writerWrite(p, w, text)
		u.setResults(p, x, []*Term{n, err})
	case "(*bytes.Buffer).Write":
		u.requireNonNil(p, x, args[0], "Write on nil *bytes.Buffer")
		n, err := u.writerWrite(p, args[0], args[1])
		p.assume(Eq(err, IntLit(0)))
		u.setResults(p, x, []*Term{n, err})
	case "(*bytes.Buffer).WriteString":
		u.requireNonNil(p, x, args[0], "WriteString on nil *bytes.Buffer")
		n, err := u.writerWrite(p, args[0], args[1])
		p.assume(Eq(err, IntLit(0)))
		u.setResults(p, x, []*Term{n, err})
	case "(*bytes.Buffer).String", "(*bytes.Buffer).Bytes":
		set1(Select(st.Get(u.cx, "written"), args[0]))
	case "strings.Contains":
		set1(App("str.contains", SBool, args[0], args[1]))
	case "strings.ContainsAny":
		// a constant set of one-byte characters: the disjunction of the single containments
		if c, ok := constString(x.Call.Args[1]); ok && len(c) <= 8 && isASCII(c) {
			var ds []*Term
			for _, ch := range c {
				ds = append(ds, App("str.contains", SBool, args[0], StrLit(string(ch))))
			}
			set1(Or(ds...))
		} else {
			u.opaqueCall(p, x, name)
		}
	case "strconv.Itoa":
		u.specFun("itoa", []string{SInt}, SStr)
		set1(App("itoa", SStr, args[0]))
	case "strings.HasPrefix":
		set1(App("str.prefixof", SBool, args[1], args[0]))
	case "strings.HasSuffix":
		set1(App("str.suffixof", SBool, args[1], args[0]))
	case "strings.LastIndex":
		u.specFun("lastIndex", []string{SStr, SStr}, SInt)
		r := App("lastIndex", SInt, args[0], args[1])
		s, sep := args[0], args[1]
		ls, lsep := App("str.len", SInt, s), App("str.len", SInt, sep)
		p.assume(Ite(App("str.contains", SBool, s, sep),
			And(Ge(r, IntLit(0)), Le(Add(r, lsep), ls), Eq(App("str.substr", SStr, s, r, lsep), sep),
				Not(App("str.contains", SBool, App("str.substr", SStr, s, Add(r, IntLit(1)), ls), sep))),
			Eq(r, IntLit(-1))))
		set1(r)
	case "strings.ToLower":
		u.specFun("toLower", []string{SStr}, SStr)
		set1(App("toLower", SStr, args[0]))
	case "strconv.Quote":
		u.specFun("quote", []string{SStr}, SStr)
		set1(quoteTerm(args[0]))
	case "strconv.QuoteRune":
		u.specFun("quoteRune", []string{SInt}, SStr)
		set1(App("quoteRune", SStr, args[0]))
	case "strconv.CanBackquote":
		u.specFun("canBackquote", []string{SStr}, SBool)
		set1(App("canBackquote", SBool, args[0]))
	case "sort.Strings":
		u.sortStrings(p, args[0])
	case "go/format.Source":
		u.specFun("fmtOf", []string{SStr}, SStr)
		u.specFun("parses", []string{SStr}, SBool)
		e := u.cx.Fresh("fmterr", SInt)
		p.assume(Ge(e, IntLit(0)))
		out := u.cx.Fresh("formatted", SStr)
		p.assume(Imp(Eq(e, IntLit(0)), And(Eq(out, App("fmtOf", SStr, args[0])), App("parses", SBool, args[0]), App("parses", SBool, out))))
		p.assume(Imp(Not(App("parses", SBool, args[0])), Neq(e, IntLit(0))))
		u.setResults(p, x, []*Term{out, e})
	case "os.WriteFile":
		st.comps["fslog"] = Add(st.Get(u.cx, "fslog"), IntLit(1))
		st.comps["fsname"] = args[0]
		st.comps["fsdata"] = args[1]
		e := u.cx.Fresh("fserr", SInt)
		p.assume(Ge(e, IntLit(0)))
		set1(e)
	case "regexp.MustCompile":
		pat, ok := constString(x.Call.Args[0])
		if !ok || pat != "[^a-z0-9]" {
			u.fail("regexp.MustCompile with a pattern other than [^a-z0-9]")
		}
		r := u.freshRef(p, "regexp")
		set1(r)
	case "(*regexp.Regexp).ReplaceAllString":
		if c, ok := constString(x.Call.Args[2]); !ok || c != "" {
			u.fail("ReplaceAllString with a non-empty replacement")
		}
		u.specFun("stripNonAlnum", []string{SStr}, SStr)
		set1(App("stripNonAlnum", SStr, args[1]))
	case "unicode/utf8.DecodeRuneInString":
		u.specFun("firstRune", []string{SStr}, SInt)
		u.specFun("runeLen", []string{SStr}, SInt)
		u.setResults(p, x, []*Term{App("firstRune", SInt, args[0]), App("runeLen", SInt, args[0])})
	case "unicode.IsDigit":
		u.specFun("isDigitRune", []string{SInt}, SBool)
		set1(App("isDigitRune", SBool, args[0]))
	case "strings.TrimLeft":
		// only the cutset of the ASCII digits is modelled (guessAlias): trimDigits with the axiom of std.spec
		if c, ok := constString(x.Call.Args[1]); ok && c == "0123456789" {
			u.specFun("trimDigits", []string{SStr}, SStr)
			set1(App("trimDigits", SStr, args[0]))
		} else {
			u.opaqueCall(p, x, name)
		}
	case "strings.Index":
		set1(App("str.indexof", SInt, args[0], args[1], IntLit(0)))
	case "strings.IndexByte":
		if c, ok := x.Call.Args[1].(*ssa.Const); ok && c.Value != nil {
			n, _ := constant.Int64Val(c.Value)
			set1(App("str.indexof", SInt, args[0], StrLit(string(rune(n))), IntLit(0)))
		} else {
			u.opaqueCall(p, x, name)
		}
	case "strings.TrimPrefix":
		set1(Ite(App("str.prefixof", SBool, args[1], args[0]), App("str.substr", SStr, args[0], App("str.len", SInt, args[1]), App("str.len", SInt, args[0])), args[0]))
	case "strings.TrimSuffix":
		set1(Ite(App("str.suffixof", SBool, args[1], args[0]), App("str.substr", SStr, args[0], IntLit(0), Sub(App("str.len", SInt, args[0]), App("str.len", SInt, args[1]))), args[0]))
	default:
		u.opaqueCall(p, x, name)
	}
}

// sortStrings: afterwards the slice is an ascending permutation of its former contents.
func (u *Unit) sortStrings(p *Path, sl *Term) {
	enc := u.v.enc
	c := enc.cellsComp(SStr)
	cells := p.st.Get(u.cx, c.Name)
	arr, off, n := enc.Sel("sl_arr", sl), IntLit(0), enc.Sel("sl_len", sl)
	old := Select(cells, arr)
	na := u.cx.Fresh("sorted", ArrSort(SInt, SStr))
	perm := u.cx.Fresh("perm", ArrSort(SInt, SInt))
	inv := u.cx.Fresh("perminv", ArrSort(SInt, SInt))
	u.cx.n++
	i := V(fmt.Sprintf("q_i_%d", u.cx.n), SInt)
	j := V(fmt.Sprintf("q_j_%d", u.cx.n), SInt)
	inRange := func(x *Term) *Term { return And(Ge(x, IntLit(0)), Lt(x, n)) }
	// outside [off, off+n) nothing changes
	p.assume(Forall([]*Term{j}, Imp(Not(And(Ge(j, off), Lt(j, Add(off, n)))), Eq(Select(na, j), Select(old, j))), []*Term{Select(na, j)}))
	// perm is a bijection on [0,n) and na[off+i] = old[off+perm[i]]. Triggers are chosen so that the two
	// halves of the bijection do not feed each other (no matching loop).
	p.assume(Forall([]*Term{i}, Imp(inRange(i), And(inRange(Select(perm, i)), Eq(Select(inv, Select(perm, i)), i),
		Eq(Select(na, Add(off, i)), Select(old, Add(off, Select(perm, i)))))), []*Term{Select(na, Add(off, i))}))
	p.assume(Forall([]*Term{i}, Imp(inRange(i), And(inRange(Select(inv, i)), Eq(Select(perm, Select(inv, i)), i))), []*Term{Select(old, Add(off, i))}))
	// ascending
	p.assume(Forall([]*Term{i, j}, Imp(And(inRange(i), inRange(j), Lt(i, j)),
		App("str.<=", SBool, Select(na, Add(off, i)), Select(na, Add(off, j)))), []*Term{Select(na, Add(off, i)), Select(na, Add(off, j))}))
	p.st.comps[c.Name] = Store(cells, arr, na)
	// expose the permutation to invariants through ghost names
	p.ghost("$perm", perm)
	p.ghost("$perminv", inv)
}

func isASCII(s string) bool {
	for i := 0; i < len(s); i++ {
		if s[i] >= 0x80 {
			return false
		}
	}
	return true
}

// quoteTerm is strconv.Quote of a string term: evaluated when the argument is a literal, the
// uninterpreted function quote (axioms in the prelude) otherwise.
func quoteTerm(t *Term) *Term {
	if t.Op == "#str" {
		return StrLit(strconv.Quote(t.Lit))
	}
	return App("quote", SStr, t)
}
