package main

import (
	"fmt"
	"go/types"
	"sort"
	"strings"

	"golang.org/x/tools/go/ssa"
)

// ---- datatypes ----

type DTField struct{ Name, Sort string }
type DTCtor struct {
	Name   string
	Fields []DTField
}
type DT struct {
	Name  string
	Ctors []DTCtor
}

// Comp is a heap component: a global SMT value (usually an array indexed by reference) that
// the symbolic state versions.
type Comp struct {
	Name  string
	Sort  string
	Ghost bool
	Kind  string // field | deref | cells | map | ghost | scalar
	Elem  string // element sort
	Desc  string
	ElemT types.Type // Go type of the element (fields, deref)
}

type Enc struct {
	prog *ssa.Program
	pkg  *ssa.Package
	tpkg *types.Package

	dts      map[string]*DT
	dtOrder  []string
	ctorOf   map[string]*DTCtor // ctor name -> ctor
	ctorDT   map[string]string
	selOf    map[string][2]string // selector -> (ctor, index as string)
	usorts   map[string]bool      // uninterpreted sorts
	comps    map[string]*Comp
	compList []string

	codeT     *types.Named
	codeImpls []types.Type // dynamic types implementing Code (declared in package)

	sortCache map[types.Type]string
	selT      map[string]types.Type // Go type of the value a selector yields
	funs      map[string]*FunDecl   // declared uninterpreted functions / constants
	funOrder  []string
}

type FunDecl struct {
	Name string
	Args []string
	Ret  string
}

func NewEnc(prog *ssa.Program, pkg *ssa.Package) *Enc {
	thePkg = pkg.Pkg
	e := &Enc{prog: prog, pkg: pkg, tpkg: pkg.Pkg,
		dts: map[string]*DT{}, ctorOf: map[string]*DTCtor{}, ctorDT: map[string]string{}, selOf: map[string][2]string{},
		usorts: map[string]bool{}, comps: map[string]*Comp{}, selT: map[string]types.Type{}, sortCache: map[types.Type]string{}, funs: map[string]*FunDecl{}}
	e.addDT(&DT{Name: "Slice", Ctors: []DTCtor{{Name: "mk_Slice", Fields: []DTField{{"sl_arr", SInt}, {"sl_off", SInt}, {"sl_len", SInt}, {"sl_cap", SInt}}}}})
	// Any: boxed values of interface{}
	anyCtors := []DTCtor{{Name: "A_nil"}}
	for _, k := range anyKinds {
		anyCtors = append(anyCtors, DTCtor{Name: "A_" + k.name, Fields: []DTField{{"A_" + k.name + "_v", k.sort}}})
	}
	anyCtors = append(anyCtors, DTCtor{Name: "A_other", Fields: []DTField{{"A_other_v", SInt}}})
	for _, s := range []string{"F32", "F64", "C64", "C128"} {
		e.usorts[s] = true
	}
	e.addDT(&DT{Name: "Any", Ctors: anyCtors})
	if obj := e.tpkg.Scope().Lookup("Code"); obj != nil {
		e.codeT = obj.Type().(*types.Named)
		e.buildCode()
	}
	for _, g := range []struct{ n, s, d string }{
		{"written", ArrSort(SInt, SStr), "ghost: concatenation of every byte slice passed to Write on a writer"},
		{"nwrites", ArrSort(SInt, SInt), "ghost: number of Write calls received by a writer"},
		{"failed", ArrSort(SInt, SBool), "ghost: some Write on the writer returned a non-nil error"},
		{"isbuf", ArrSort(SInt, SBool), "ghost: the writer is a *bytes.Buffer"},
		{"calls", ArrSort(SInt, SInt), "ghost: number of invocations of a user callback"},
	} {
		e.addComp(&Comp{Name: g.n, Sort: g.s, Ghost: true, Kind: "ghost", Desc: g.d})
	}
	e.addComp(&Comp{Name: "fslog", Sort: SInt, Ghost: true, Kind: "scalar", Desc: "ghost: number of mutating filesystem calls"})
	e.addComp(&Comp{Name: "fsname", Sort: SStr, Ghost: true, Kind: "scalar", Desc: "ghost: name given to the last os.WriteFile"})
	e.addComp(&Comp{Name: "fsdata", Sort: SStr, Ghost: true, Kind: "scalar", Desc: "ghost: data given to the last os.WriteFile"})
	e.addComp(&Comp{Name: "alloc", Sort: SInt, Ghost: true, Kind: "scalar", Desc: "ghost: allocation watermark"})
	simplifyApp = e.simplify
	return e
}

type anyKind struct {
	name, sort string
	kind       types.BasicKind
}

var anyKinds = []anyKind{
	{"bool", SBool, types.Bool}, {"string", SStr, types.String}, {"int", SInt, types.Int},
	{"int8", SInt, types.Int8}, {"int16", SInt, types.Int16}, {"int32", SInt, types.Int32}, {"int64", SInt, types.Int64},
	{"uint", SInt, types.Uint}, {"uint8", SInt, types.Uint8}, {"uint16", SInt, types.Uint16}, {"uint32", SInt, types.Uint32}, {"uint64", SInt, types.Uint64},
	{"uintptr", SInt, types.Uintptr}, {"float32", "F32", types.Float32}, {"float64", "F64", types.Float64},
	{"complex64", "C64", types.Complex64}, {"complex128", "C128", types.Complex128},
}

func (e *Enc) addDT(d *DT) {
	if _, ok := e.dts[d.Name]; ok {
		return
	}
	e.dts[d.Name] = d
	e.dtOrder = append(e.dtOrder, d.Name)
	for i := range d.Ctors {
		c := &d.Ctors[i]
		e.ctorOf[c.Name] = c
		e.ctorDT[c.Name] = d.Name
		for j, f := range c.Fields {
			e.selOf[f.Name] = [2]string{c.Name, fmt.Sprint(j)}
		}
	}
}

func (e *Enc) addComp(c *Comp) *Comp {
	if old, ok := e.comps[c.Name]; ok {
		return old
	}
	e.comps[c.Name] = c
	e.compList = append(e.compList, c.Name)
	return c
}

func (e *Enc) declFun(name string, args []string, ret string) {
	if _, ok := e.funs[name]; ok {
		return
	}
	e.funs[name] = &FunDecl{Name: name, Args: args, Ret: ret}
	e.funOrder = append(e.funOrder, name)
}

// simplify: selector/tester over constructor applications.
func (e *Enc) simplify(t *Term) *Term {
	if len(t.Args) == 1 {
		a := t.Args[0]
		if info, ok := e.selOf[t.Op]; ok && a.Op == info[0] {
			var idx int
			fmt.Sscan(info[1], &idx)
			return a.Args[idx]
		}
		if strings.HasPrefix(t.Op, "(_ is ") {
			cn := t.Op[len("(_ is ") : len(t.Op)-1]
			if _, isCtor := e.ctorOf[a.Op]; isCtor {
				return BoolLit(a.Op == cn)
			}
		}
	}
	return t
}

func (e *Enc) Sel(name string, x *Term) *Term {
	info, ok := e.selOf[name]
	if !ok {
		panic("unknown selector " + name)
	}
	c := e.ctorOf[info[0]]
	var idx int
	fmt.Sscan(info[1], &idx)
	r := e.simplify(App(name, c.Fields[idx].Sort, x))
	if T, ok := e.selT[name]; ok && r.T == nil {
		r = r.WithT(T)
	}
	return r
}

func (e *Enc) Is(ctor string, x *Term) *Term {
	if _, ok := e.ctorOf[ctor]; !ok {
		panic("unknown ctor " + ctor)
	}
	d := e.dts[e.ctorDT[ctor]]
	if len(d.Ctors) == 1 {
		return tTrue
	}
	return e.simplify(App("(_ is "+ctor+")", SBool, x))
}

func (e *Enc) Mk(ctor string, args ...*Term) *Term {
	c, ok := e.ctorOf[ctor]
	if !ok {
		panic("unknown ctor " + ctor)
	}
	if len(args) != len(c.Fields) {
		panic("ctor arity " + ctor)
	}
	for i, a := range args {
		if a.Sort != c.Fields[i].Sort {
			panic(fmt.Sprintf("ctor %s field %s: got sort %s want %s (%s)", ctor, c.Fields[i].Name, a.Sort, c.Fields[i].Sort, a))
		}
	}
	return App(ctor, e.ctorDT[ctor], args...)
}

// ---- Code interface ----

func mangle(s string) string {
	r := strings.NewReplacer("*", "p", ".", "_", "[", "_", "]", "_", " ", "", "(", "_", ")", "_", ",", "_", "{", "_", "}", "_", "/", "_")
	return r.Replace(s)
}

func (e *Enc) typeName(t types.Type) string {
	return mangle(types.TypeString(t, func(p *types.Package) string {
		if p == e.tpkg {
			return ""
		}
		return p.Name()
	}))
}

func (e *Enc) buildCode() {
	iface := e.codeT.Underlying().(*types.Interface)
	var impls []types.Type
	scope := e.tpkg.Scope()
	for _, n := range scope.Names() {
		tn, ok := scope.Lookup(n).(*types.TypeName)
		if !ok || tn.IsAlias() {
			continue
		}
		T := tn.Type()
		if types.IsInterface(T) {
			continue
		}
		if types.Implements(T, iface) {
			impls = append(impls, T)
		}
		if P := types.NewPointer(T); types.Implements(P, iface) {
			impls = append(impls, P)
		}
	}
	// function-local named types are not in package scope; none implement Code in jennifer.
	sort.Slice(impls, func(i, j int) bool { return e.typeName(impls[i]) < e.typeName(impls[j]) })
	e.codeImpls = impls
	ctors := []DTCtor{{Name: "C_nil"}}
	for _, T := range impls {
		n := e.typeName(T)
		ctors = append(ctors, DTCtor{Name: "C_" + n, Fields: []DTField{{"C_" + n + "_v", e.SortOf(T)}}})
		e.selT["C_"+n+"_v"] = T
	}
	ctors = append(ctors, DTCtor{Name: "C_other", Fields: []DTField{{"C_other_v", SInt}}})
	e.addDT(&DT{Name: "Code", Ctors: ctors})
}

// CodeCtor returns the constructor name boxing dynamic type T into Code ("" if none).
func (e *Enc) CodeCtor(T types.Type) string {
	for _, I := range e.codeImpls {
		if types.Identical(I, T) {
			return "C_" + e.typeName(I)
		}
	}
	return ""
}

func (e *Enc) isCode(t types.Type) bool {
	n, ok := t.(*types.Named)
	return ok && e.codeT != nil && n.Obj() == e.codeT.Obj()
}

// ---- Go type -> sort ----

func isByteSlice(t types.Type) bool {
	if s, ok := t.Underlying().(*types.Slice); ok {
		if b, ok := s.Elem().Underlying().(*types.Basic); ok && b.Kind() == types.Uint8 {
			return true
		}
	}
	return false
}

func (e *Enc) SortOf(t types.Type) string {
	if s, ok := e.sortCache[t]; ok {
		return s
	}
	s := e.sortOf(t)
	e.sortCache[t] = s
	return s
}

func (e *Enc) sortOf(t types.Type) string {
	switch t.(type) {
	case *types.Named, *types.Basic, *types.Pointer, *types.Map, *types.Signature, *types.Chan, *types.Slice, *types.Interface, *types.Struct, *types.Tuple, *types.Array, *types.Alias:
	default:
		return "Opaque"
	}
	if e.isCode(t) {
		return "Code"
	}
	switch u := t.Underlying().(type) {
	case *types.Basic:
		switch {
		case u.Info()&types.IsBoolean != 0:
			return SBool
		case u.Info()&types.IsString != 0:
			return SStr
		case u.Info()&types.IsInteger != 0:
			return SInt
		case u.Kind() == types.Float32:
			return "F32"
		case u.Kind() == types.Float64, u.Kind() == types.UntypedFloat:
			return "F64"
		case u.Kind() == types.Complex64:
			return "C64"
		case u.Kind() == types.Complex128, u.Kind() == types.UntypedComplex:
			return "C128"
		case u.Kind() == types.UnsafePointer, u.Kind() == types.UntypedNil:
			return SInt
		}
		return SInt
	case *types.Pointer, *types.Map, *types.Signature, *types.Chan:
		return SInt
	case *types.Slice:
		if isByteSlice(t) {
			return SStr
		}
		e.cellsComp(e.SortOf(u.Elem()))
		return "Slice"
	case *types.Interface:
		if u.NumMethods() == 0 {
			return "Any"
		}
		return SInt
	case *types.Struct:
		return e.structSort(t, u)
	case *types.Tuple:
		return "Tuple"
	case *types.Array:
		e.cellsComp(e.SortOf(u.Elem()))
		return "ArrayVal"
	}
	return SInt
}

func (e *Enc) structName(t types.Type) string {
	if n, ok := t.(*types.Named); ok {
		name := n.Obj().Name()
		if n.Obj().Pkg() != nil && n.Obj().Pkg() != e.tpkg {
			name = n.Obj().Pkg().Name() + "_" + name
		}
		return name
	}
	return mangle(t.String())
}

func (e *Enc) structSort(t types.Type, u *types.Struct) string {
	name := "S_" + e.structName(t)
	if _, ok := e.dts[name]; ok {
		return name
	}
	// external opaque structs (bytes.Buffer, ...) have no modelled fields
	var fs []DTField
	if n, ok := t.(*types.Named); !ok || n.Obj().Pkg() == e.tpkg {
		for i := 0; i < u.NumFields(); i++ {
			f := u.Field(i)
			fs = append(fs, DTField{"sel_" + e.structName(t) + "_" + f.Name(), e.SortOf(f.Type())})
			e.selT["sel_"+e.structName(t)+"_"+f.Name()] = f.Type()
		}
	}
	e.addDT(&DT{Name: name, Ctors: []DTCtor{{Name: "mk_" + e.structName(t), Fields: fs}}})
	return name
}

// ---- heap components ----

func sortTag(s string) string {
	return mangle(strings.NewReplacer("(Array ", "Arr_", ")", "").Replace(s))
}

func (e *Enc) cellsComp(elem string) *Comp {
	return e.addComp(&Comp{Name: "cells_" + sortTag(elem), Sort: ArrSort(SInt, ArrSort(SInt, elem)), Kind: "cells", Elem: elem,
		Desc: "backing arrays of slices with element sort " + elem})
}

func (e *Enc) fieldComp(st types.Type, i int) *Comp {
	u := st.Underlying().(*types.Struct)
	f := u.Field(i)
	return e.addComp(&Comp{Name: "F_" + e.structName(st) + "_" + f.Name(), Sort: ArrSort(SInt, e.SortOf(f.Type())), Kind: "field", Elem: e.SortOf(f.Type()),
		Desc: "field " + f.Name() + " of every " + e.structName(st), ElemT: f.Type()})
}

func (e *Enc) derefComp(elem types.Type) *Comp {
	return e.addComp(&Comp{Name: "D_" + e.typeName(elem), Sort: ArrSort(SInt, e.SortOf(elem)), Kind: "deref", Elem: e.SortOf(elem),
		Desc: "contents of every *" + e.typeName(elem), ElemT: elem})
}

// MapSort returns the datatype sort of map values with the given key/value sorts.
func (e *Enc) MapSort(k, v string) string {
	name := "Map_" + sortTag(k) + "_" + sortTag(v)
	if _, ok := e.dts[name]; !ok {
		e.addDT(&DT{Name: name, Ctors: []DTCtor{{Name: "mk_" + name, Fields: []DTField{
			{name + "_dom", ArrSort(k, SBool)}, {name + "_val", ArrSort(k, v)}, {name + "_card", SInt}}}}})
		// finite_<sort>(m): m is the value of a real (finite) Go map, card being the size of its domain
		e.declFun("finite_"+name, []string{name}, SBool)
	}
	return name
}

func (e *Enc) mapComp(m *types.Map) *Comp {
	k, v := e.SortOf(m.Key()), e.SortOf(m.Elem())
	ms := e.MapSort(k, v)
	return e.addComp(&Comp{Name: "M_" + sortTag(k) + "_" + sortTag(v), Sort: ArrSort(SInt, ms), Kind: "map", Elem: ms,
		Desc: "contents of every map with key sort " + k + " and value sort " + v})
}

func (e *Enc) MapDom(m *Term) *Term  { return e.Sel(m.Sort+"_dom", m) }
func (e *Enc) MapVal(m *Term) *Term  { return e.Sel(m.Sort+"_val", m) }
func (e *Enc) MapCard(m *Term) *Term { return e.Sel(m.Sort+"_card", m) }

func (e *Enc) EmptyMap(ms string) *Term {
	d := e.dts[ms]
	domS := d.Ctors[0].Fields[0].Sort
	valS := d.Ctors[0].Fields[1].Sort
	_, vs, _ := arrParts(valS)
	return e.Mk("mk_"+ms, ConstArray(domS, tFalse), ConstArray(valS, e.Zero(vs)), IntLit(0))
}

// Zero value of a sort.
func (e *Enc) Zero(s string) *Term {
	switch s {
	case SInt:
		return IntLit(0)
	case SBool:
		return tFalse
	case SStr:
		return StrLit("")
	case "Code":
		return V("C_nil", "Code")
	case "Any":
		return V("A_nil", "Any")
	}
	if e.usorts[s] {
		e.declFun("zero_"+s, nil, s)
		return V("zero_"+s, s)
	}
	if d, ok := e.dts[s]; ok && len(d.Ctors) == 1 && !strings.HasPrefix(s, "Map_") {
		var args []*Term
		for _, f := range d.Ctors[0].Fields {
			args = append(args, e.Zero(f.Sort))
		}
		return App(d.Ctors[0].Name, s, args...)
	}
	if strings.HasPrefix(s, "Map_") {
		return e.EmptyMap(s)
	}
	if _, v, ok := arrParts(s); ok {
		return ConstArray(s, e.Zero(v))
	}
	panic("no zero for sort " + s)
}

// ---- SMT preamble ----

func (e *Enc) dtDeps(d *DT) []string {
	seen := map[string]bool{}
	var out []string
	for _, c := range d.Ctors {
		for _, f := range c.Fields {
			for name := range e.dts {
				if name != d.Name && !seen[name] && containsWord(f.Sort, name) {
					seen[name] = true
					out = append(out, name)
				}
			}
		}
	}
	sort.Strings(out)
	return out
}

func containsWord(s, w string) bool {
	i := 0
	for {
		j := strings.Index(s[i:], w)
		if j < 0 {
			return false
		}
		j += i
		before := j == 0 || s[j-1] == ' ' || s[j-1] == '('
		after := j+len(w) == len(s) || s[j+len(w)] == ' ' || s[j+len(w)] == ')'
		if before && after {
			return true
		}
		i = j + 1
	}
}

func (e *Enc) Preamble() string {
	var b strings.Builder
	for _, s := range sortedKeys(e.usorts) {
		fmt.Fprintf(&b, "(declare-sort %s 0)\n", s)
	}
	done := map[string]bool{}
	var emit func(n string)
	emit = func(n string) {
		if done[n] {
			return
		}
		done[n] = true
		d := e.dts[n]
		for _, dep := range e.dtDeps(d) {
			emit(dep)
		}
		fmt.Fprintf(&b, "(declare-datatypes ((%s 0)) ((", d.Name)
		for _, c := range d.Ctors {
			fmt.Fprintf(&b, "(%s", c.Name)
			for _, f := range c.Fields {
				fmt.Fprintf(&b, " (%s %s)", f.Name, f.Sort)
			}
			b.WriteString(") ")
		}
		b.WriteString(")))\n")
	}
	for _, n := range e.dtOrder {
		emit(n)
	}
	for _, n := range e.funOrder {
		f := e.funs[n]
		fmt.Fprintf(&b, "(declare-fun %s (%s) %s)\n", f.Name, strings.Join(f.Args, " "), f.Ret)
	}
	return b.String()
}
