package main

import (
	"fmt"
)

// runLemmas proves the prelude lemmas tagged with the property. A lemma is a closed formula over
// spec functions; its variables are universally quantified (skolemised), recursive definitions are
// unfolded with the lemma's fuel.
func (r *Run) runLemmas(opts SolverOpts, fuel int) []*ObResult {
	v := r.L.v
	var out []*ObResult
	for _, l := range v.spec.lemmas {
		if r.Prop != "all" && !hasProp(l.Props, r.Prop) {
			continue
		}
		cx := NewCtx(v.enc, v.spec, "lemma "+l.Name)
		st := cx.InitState("L")
		cx.tree = st
		res := &ObResult{Name: "lemma#" + l.Name, Kind: "lemma", Props: l.Props, Src: l.Body.String(), Queries: 1}
		out = append(out, res)
		err := cx.computeTreeReads()
		var q *Query
		if err == nil {
			vars := map[string]*Term{}
			func() {
				defer func() {
					if rr := recover(); rr != nil {
						err = fmt.Errorf("%v", rr)
					}
				}()
				for _, qv := range l.Vars {
					s, gt := cx.ResolveType(qv.Type)
					vars[qv.Name] = cx.Named("L_"+qv.Name, s).WithT(gt)
				}
			}()
			if err == nil {
				env := &Env{cx: cx, st: st, old: st, vars: vars}
				var hyps []*Term
				for _, h := range l.Hyps {
					t, e := env.EvalBool(h)
					if e != nil {
						err = e
						break
					}
					hyps = append(hyps, t)
				}
				if err == nil {
					var goal *Term
					goal, err = env.EvalBool(l.Body)
					if err == nil {
						ob := &Obligation{Name: res.Name, Kind: "lemma", Props: l.Props}
						q = &Query{Ob: ob, Assumes: hyps, Goal: goal, Cx: cx, Path: "lemma"}
					}
				}
			}
		}
		if err != nil {
			res.Status = "error"
			res.Detail = err.Error()
			continue
		}
		lopts := opts
		if lopts.TimeoutS < 40 {
			lopts.TimeoutS = 40 // pure string lemmas: few, but some need one particular back end for several seconds
		}
		SolveAll([]*Query{q}, l.Fuel, lopts, func(*Query) []*Term { return nil })
		res.Millis = q.Millis
		res.Solver = q.Solver
		switch q.Result {
		case "unsat":
			res.Status = "discharged"
		case "sat":
			res.Status = "refuted"
			res.bad = q
		default:
			res.Status = "unknown"
			res.bad = q
		}
	}
	return out
}
