package main

import (
	"encoding/json"
	"fmt"
	"go/token"
	"golang.org/x/tools/go/ssa"
	"os"
	"path/filepath"
	"sort"
	"strings"
	"time"
)

type Run struct {
	L        *Loaded
	Prop     string
	Tier     string
	Seed     int
	Only     string
	ObFilter string
	Verbose  bool
	Start    time.Time
}

type KnownFinding struct {
	Property   string `json:"property"`
	Obligation string `json:"obligation"`
	What       string `json:"what"`
	Status     string `json:"status"` // known | fixed
	Commit     string `json:"commit,omitempty"`
}

type KnownFile struct {
	Findings []KnownFinding `json:"findings"`
}

func loadKnown() *KnownFile {
	kf := &KnownFile{}
	b, err := os.ReadFile(filepath.Join(verifDir, "known_findings.json"))
	if err == nil {
		json.Unmarshal(b, kf)
	}
	return kf
}

func (kf *KnownFile) lookup(prop, ob string) *KnownFinding {
	for i := range kf.Findings {
		f := &kf.Findings[i]
		if f.Status == "known" && f.Obligation == ob && (f.Property == prop || f.Property == "*") {
			return f
		}
	}
	return nil
}

// unitsFor returns the contract keys of the functions involved in a property.
func (r *Run) unitsFor() []string {
	v := r.L.v
	var out []string
	for _, k := range v.contracts.order {
		c := v.contracts.byKey[k]
		if c.IsIface {
			continue
		}
		if r.Prop != "all" && !hasProp(c.Props, r.Prop) {
			continue
		}
		if r.Only != "" && !strings.Contains(k, r.Only) {
			continue
		}
		out = append(out, k)
	}
	if r.Prop == "all" || r.Only != "" {
		return out
	}
	// A proof about the tagged functions uses the contracts of everything they call: those callees (through
	// uncontracted helpers and through the implementations of interface methods, transitively) belong to the
	// property's check as well, whatever their own tags say.
	in := map[string]bool{}
	for _, k := range out {
		in[k] = true
	}
	var work []*ssa.Function
	seen := map[*ssa.Function]bool{}
	for _, k := range out {
		if f := v.fnByKey[k]; f != nil {
			work = append(work, f)
		}
	}
	for len(work) > 0 {
		f := work[0]
		work = work[1:]
		if seen[f] {
			continue
		}
		seen[f] = true
		for _, b := range f.Blocks {
			for _, ins := range b.Instrs {
				call, ok := ins.(ssa.CallInstruction)
				if !ok {
					continue
				}
				cc := call.Common()
				var callees []*ssa.Function
				if cc.IsInvoke() {
					callees = v.eff.impl[ifaceKey(cc)]
				} else if cf, ok := cc.Value.(*ssa.Function); ok && cf.Pkg == v.enc.pkg && cf.Blocks != nil {
					callees = []*ssa.Function{cf}
				}
				for _, cf := range callees {
					k := fnKey(cf)
					if c := v.contracts.byKey[k]; c != nil && !c.IsIface && !in[k] {
						in[k] = true
						out = append(out, k)
					}
					work = append(work, cf)
				}
			}
		}
	}
	return out
}

func (r *Run) Execute() int {
	v := r.L.v
	opts := SolverOpts{WorkDir: filepath.Join(verifDir, ".work", fmt.Sprint(os.Getpid())), TimeoutS: 10, Seed: r.Seed, Models: true, Parallel: 10}
	fuel := 1
	if r.Tier == "thorough" {
		opts.TimeoutS = 60
		opts.Confirm = true
	}
	v.fuel = fuel
	defer os.RemoveAll(opts.WorkDir)
	known := loadKnown()

	var units []*Unit
	var undecided []string
	for _, k := range r.unitsFor() {
		fn := v.fnByKey[k]
		if fn == nil {
			// a contract on an unexported helper is a lemma about code; when the helper is gone (renamed, inlined)
			// there is nothing left to prove about it, and its callers are verified against what replaced it.
			// A missing exported function is a missing piece of the API the properties talk about.
			name := k[strings.LastIndex(k, ".")+1:]
			if name != "" && !token.IsExported(name) {
				fmt.Fprintf(os.Stderr, "jvc: note: contract for %s: no such function in package jen any more; ignored (unexported helper)\n", k)
				continue
			}
			undecided = append(undecided, fmt.Sprintf("contract for %s: no such function in package jen", k))
			continue
		}
		u := v.NewUnit(fn)
		u.Run()
		for _, s := range u.undecided {
			undecided = append(undecided, u.name+": "+s)
		}
		units = append(units, u)
	}
	// collect queries relevant to the property
	var queries []*Query
	var obs []*Obligation
	factsOf := map[*Query][]*Term{}
	var covers []*Query
	reserve := map[string][]*Query{}
	for _, u := range units {
		for _, o := range u.Obligations() {
			if u.bc != nil && u.bc.own != nil && u.bc.own.Flags["synthesized"] && (o.Kind == "frame" || o.Kind == "safe") {
				continue // a default contract declares no frame and no panic-freedom
			}
			// every obligation of a function the property depends on is checked: clause-level property tags name
			// the clauses that state the property, they do not restrict what is proved (a gap in the tags would
			// otherwise be a gap in the check)
			if r.ObFilter != "" && !strings.Contains(o.Name, r.ObFilter) {
				continue
			}
			obs = append(obs, o)
			for _, q := range o.Queries {
				queries = append(queries, q)
				factsOf[q] = u.facts()
			}
		}
		// vacuity guard: the precondition and a sample of return paths per unit (enough to notice an
		// inconsistent assumed contract or axiom; individual infeasible paths are normal). The rest of
		// the return paths is only consulted if the whole sample turns out infeasible.
		var rets []*Query
		for _, q := range u.covers {
			factsOf[q] = u.facts()
			if strings.HasSuffix(q.Path, ":precondition") {
				covers = append(covers, q)
			} else if strings.HasSuffix(q.Path, ":return") {
				rets = append(rets, q)
			}
		}
		step := len(rets)/6 + 1
		if r.Tier == "thorough" {
			step = 1 // must-fail twin of every return path: 'ensures false' must not be provable
		}
		for i, q := range rets {
			if i%step == 0 {
				covers = append(covers, q)
			} else {
				reserve[u.name] = append(reserve[u.name], q)
			}
		}
	}
	SolveAll(queries, fuel, opts, func(q *Query) []*Term { return factsOf[q] })
	// vacuity guards: covers must not be unsat
	copts := opts
	copts.TimeoutS = 1
	if r.Tier == "thorough" {
		copts.TimeoutS = 3
	}
	copts.Parallel = 16
	copts.Confirm = false
	copts.Models = false
	SolveAll(covers, fuel, copts, func(q *Query) []*Term { return factsOf[q] })
	// A unit is vacuous when its precondition is contradictory, or when no path to a return is
	// satisfiable (an inconsistent assumed contract or axiom would cause that). Individual
	// infeasible paths are normal in path-wise symbolic execution and are only counted.
	vacuous := 0
	coverSat := 0
	infeasible := 0
	var vacuousPaths []string
	type ucov struct{ pre, anyRet, hasRet bool }
	per := map[string]*ucov{}
	for _, q := range covers {
		uc := per[q.Cx.unit]
		if uc == nil {
			uc = &ucov{pre: true}
			per[q.Cx.unit] = uc
		}
		isPre := strings.HasSuffix(q.Path, ":precondition")
		isRet := strings.HasSuffix(q.Path, ":return")
		if isRet {
			uc.hasRet = true
		}
		switch q.Result {
		case "unsat":
			infeasible++
			if isPre {
				uc.pre = false
			}
		case "sat":
			coverSat++
			if isRet {
				uc.anyRet = true
			}
		default:
			if isRet {
				uc.anyRet = true
			}
		}
	}
	// units whose whole sample was infeasible: look at their remaining return paths
	var extra []*Query
	for un, uc := range per {
		if uc.pre && uc.hasRet && !uc.anyRet {
			extra = append(extra, reserve[un]...)
		}
	}
	if len(extra) > 0 {
		SolveAll(extra, fuel, copts, func(q *Query) []*Term { return factsOf[q] })
		for _, q := range extra {
			if q.Result != "unsat" {
				per[q.Cx.unit].anyRet = true
			}
			covers = append(covers, q)
		}
	}
	for _, un := range sortedKeys(per) {
		uc := per[un]
		if !uc.pre {
			vacuous++
			vacuousPaths = append(vacuousPaths, un+": contradictory precondition")
		} else if uc.hasRet && !uc.anyRet {
			vacuous++
			vacuousPaths = append(vacuousPaths, un+": no satisfiable path reaches a return")
		}
	}
	_ = infeasible
	// lemmas of the prelude tagged with this property
	lemmaRes := r.runLemmas(opts, fuel)

	// package-level obligations
	var pkgRes []*ObResult
	for _, po := range v.PackageObligations() {
		if r.Prop != "all" && !hasProp(po.Props, r.Prop) {
			continue
		}
		st := "discharged"
		if !po.Holds {
			st = "refuted"
		}
		pkgRes = append(pkgRes, &ObResult{Name: po.Name, Kind: "package", Props: po.Props, Status: st, Solver: "syntactic", Src: po.Desc, Detail: po.Detail, Queries: 1})
	}
	var tableRes []*ObResult
	if r.Only == "" && r.ObFilter == "" {
		tableRes = r.tableObligations()
	}

	var results []*ObResult
	for _, o := range obs {
		results = append(results, summarize(o))
	}
	results = append(results, lemmaRes...)
	results = append(results, pkgRes...)
	results = append(results, tableRes...)

	// verdict
	exit := 0
	violations := 0
	discharged := 0
	var solverMs int64
	bySolver := map[string]int{}
	os.MkdirAll(filepath.Join(verifDir, "replays"), 0755)
	for _, res := range results {
		solverMs += res.Millis
		if res.Status == "discharged" {
			discharged++
			bySolver[res.Solver]++
			continue
		}
		if kf := known.lookup(r.Prop, res.Name); kf != nil {
			fmt.Printf("KNOWN-FINDING: property=%s %s: %s\n", r.Prop, res.Name, kf.What)
			res.Status = "known-finding"
			continue
		}
		violations++
		exit = 1
		replay, reproduced := r.replay(res)
		tail := ""
		if !reproduced {
			tail = " no-failing-input-found"
		}
		fmt.Printf("VIOLATION property=%s replay=%s obligation=%s status=%s%s\n", r.Prop, replay, res.Name, res.Status, tail)
	}
	// A unit whose contract no longer applies to the code (a loop the contract names is gone, a name an
	// invariant mentions has disappeared, an instruction outside the supported subset appeared): every
	// obligation of that unit was discharged on the unchanged tree and cannot be established now. This is
	// reported as a violation of the unit's contract; the witness searches registered for the unit's
	// obligations are run to look for a failing input on the real code.
	for _, s := range undecided {
		unit, reason, _ := strings.Cut(s, ": ")
		res := &ObResult{Name: unit + "#contract-applies", Kind: "contract", Status: "contract-mismatch", Src: "the contract of " + unit + " can be evaluated against its current body", Detail: reason}
		if kf := known.lookup(r.Prop, res.Name); kf != nil {
			fmt.Printf("KNOWN-FINDING: property=%s %s: %s\n", r.Prop, res.Name, kf.What)
			continue
		}
		violations++
		exit = 1
		replay, reproduced := r.replayUnit(res, unit)
		tail := ""
		if !reproduced {
			tail = " no-failing-input-found"
		}
		fmt.Printf("VIOLATION property=%s replay=%s obligation=%s status=%s reason=%q%s\n", r.Prop, replay, res.Name, res.Status, reason, tail)
	}
	if vacuous > 0 {
		for _, vp := range vacuousPaths {
			fmt.Printf("UNDECIDED property=%s reason=vacuous-path %s\n", r.Prop, vp)
		}
		if exit == 0 {
			exit = 2
		}
	}
	if len(results) == 0 && len(undecided) == 0 {
		fmt.Printf("UNDECIDED property=%s reason=no-obligations-generated\n", r.Prop)
		exit = 2
	}
	r.writeEvidence(units, results, discharged, violations, solverMs, bySolver, coverSat, len(covers), vacuous, undecided)
	fmt.Printf("jvc: property=%s tier=%s units=%d obligations=%d discharged=%d violations=%d undecided=%d covers=%d/%d sat, %d vacuous; solver=%.1fs wall=%.1fs\n",
		r.Prop, r.Tier, len(units), len(results), discharged, violations, len(undecided), coverSat, len(covers), vacuous, float64(solverMs)/1000, time.Since(r.Start).Seconds())
	if r.Verbose {
		for _, res := range results {
			fmt.Printf("  %-70s %-12s %5dms (slowest query %dms) %s\n", res.Name, res.Status, res.Millis, res.MaxMs, res.Solver)
		}
		for _, o := range obs {
			for i, q := range o.Queries {
				if q.Result != "unsat" {
					fmt.Printf("    failing query: %s #%d path=%s result=%s solver=%s %dms\n", o.Name, i+1, q.Path, q.Result, q.Solver, q.Millis)
				}
			}
		}
	}
	return exit
}

// replayUnit runs every witness search registered for obligations of the given unit.
func (r *Run) replayUnit(res *ObResult, unit string) (string, bool) {
	path := filepath.Join(verifDir, "replays", fmt.Sprintf("%s-%s.txt", r.Prop, mangle(res.Name)))
	var b strings.Builder
	fmt.Fprintf(&b, "property: %s\nobligation: %s\nstatus: %s\nreason: %s\n", r.Prop, res.Name, res.Status, res.Detail)
	reproduced := false
	seen := map[string]bool{}
	for _, w := range loadWitnesses() {
		if !strings.HasPrefix(w.Obligation, unit+"#") || seen[w.File+"/"+w.Test] || loadKnown().lookup("*", w.Obligation) != nil {
			continue
		}
		seen[w.File+"/"+w.Test] = true
		out, failed, err := runOverlayTest(w.File, w.Test, nil)
		fmt.Fprintf(&b, "\n--- witness search %s (%s) on the real code ---\n%s\n", w.Test, w.File, out)
		if err == nil && failed {
			reproduced = true
		}
	}
	os.WriteFile(path, []byte(b.String()), 0644)
	return path, reproduced
}

// replay writes the replay file for a failed obligation; returns (path, reproduced on real code).
func (r *Run) replay(res *ObResult) (string, bool) {
	path := filepath.Join(verifDir, "replays", fmt.Sprintf("%s-%s.txt", r.Prop, mangle(res.Name)))
	var b strings.Builder
	fmt.Fprintf(&b, "property: %s\nobligation: %s\nkind: %s\nstatus: %s\nclause: %s\n", r.Prop, res.Name, res.Kind, res.Status, res.Src)
	if res.Detail != "" {
		fmt.Fprintf(&b, "detail: %s\n", res.Detail)
	}
	reproduced := false
	if res.bad != nil {
		fmt.Fprintf(&b, "path: %s\nsolver: %s\nresult: %s\n\n--- solver output / model ---\n%s\n", res.bad.Path, res.bad.Solver, res.bad.Result, res.bad.Model)
		{
			if out, ok := r.tryReplay(res); out != "" {
				fmt.Fprintf(&b, "\n--- replay on the real code ---\n%s\n", out)
				reproduced = ok
			}
		}
		if res.bad.SMT != "" && !strings.HasSuffix(res.bad.SMT, ".smt2") {
			fmt.Fprintf(&b, "\n--- query ---\n%s\n", res.bad.SMT)
		}
	} else if res.Kind == "package" || res.Kind == "table" {
		reproduced = res.Kind == "table"
	}
	os.WriteFile(path, []byte(b.String()), 0644)
	return path, reproduced
}

func (r *Run) writeEvidence(units []*Unit, results []*ObResult, discharged, violations int, solverMs int64, bySolver map[string]int, coverSat, coverN, vacuous int, undecided []string) {
	if r.Prop == "all" || os.Getenv("JVC_NO_EVIDENCE") != "" || repoDir != "/repo" {
		return // evidence is only written by checks of /repo itself (not by seeded-change or scratch-copy runs)
	}
	trusted := map[string]bool{}
	var fnames []string
	paths := 0
	for _, u := range units {
		fnames = append(fnames, fmt.Sprintf("%s (%d path segments, %d loops)", u.name, u.paths, len(u.loops)))
		paths += u.paths
		for n := range u.trusted {
			trusted[trustedBase[n]] = true
		}
	}
	for _, a := range r.L.v.spec.axioms {
		trusted["axiom "+a.Name+" ("+a.File+")"] = true
	}
	var samples []interface{}
	for _, res := range results {
		if len(samples) >= 3 {
			break
		}
		if res.Kind == "post" || res.Kind == "inv" || res.Kind == "table" || res.Kind == "lemma" {
			samples = append(samples, map[string]interface{}{"obligation": res.Name, "clause": res.Src, "status": res.Status, "solver": res.Solver, "ms": res.Millis})
		}
	}
	if len(samples) == 0 {
		for _, res := range results {
			if len(samples) >= 3 {
				break
			}
			samples = append(samples, map[string]interface{}{"obligation": res.Name, "clause": res.Src, "status": res.Status, "solver": res.Solver, "ms": res.Millis})
		}
	}
	kn := 0
	for _, res := range results {
		if res.Status == "known-finding" {
			kn++
		}
	}
	ev := map[string]interface{}{
		"property_id": r.Prop,
		"tier":        r.Tier,
		"seed":        r.Seed,
		"level":       "proof",
		"wall_s":      time.Since(r.Start).Seconds(),
		"violations":  violations,
		"coverage": map[string]interface{}{
			"obligations":              len(results) - kn,
			"discharged":               discharged,
			"known_findings":           kn,
			"known_findings_note":      "obligations listed in /verif/known_findings.json are reported as KNOWN-FINDING, are not counted in 'obligations' and are not claimed proved",
			"checker_cmd":              fmt.Sprintf("bin/jvc check %s --tier %s  (VC generation over go/ssa of /repo/jen; z3-new 5.1.0 | z3 4.8.12 | cvc5 1.0 raced per obligation)", r.Prop, r.Tier),
			"trusted_base":             sortedKeys(trusted),
			"functions_under_contract": fnames,
			"path_segments":            paths,
			"obligations_by_backend":   bySolver,
			"solver_time_s":            float64(solverMs) / 1000,
			"vacuity_guard":            map[string]int{"cover_queries": coverN, "shown_satisfiable": coverSat, "vacuous": vacuous},
			"undecided":                undecided,
			"results":                  results,
			"samples":                  samples,
		},
		"assumptions": r.assumptions(),
	}
	writeJSON(filepath.Join(verifDir, "evidence", r.Prop+".json"), ev)
}

func (r *Run) assumptions() []string {
	out := []string{
		"machine integers treated as mathematical integers (no 64-bit overflow)",
		"[]byte values are modelled as immutable strings; Go strings as SMT strings (byte/rune distinction dropped)",
		"termination, stack depth and memory exhaustion are not proved; Code trees are assumed acyclic",
		"callee contracts are used at call sites (modular verification); every contracted callee of the property's functions (transitively, through interface implementations too) is verified in the same run",
		"the heap model: one array per struct field, explicit slice backing arrays with capacity, maps as (domain, values, cardinality) with an arbitrary enumeration order per range loop",
		"error values are opaque (only nil / non-nil is modelled)",
	}
	sort.Strings(out)
	return out
}
