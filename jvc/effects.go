package main

import (
	"fmt"
	"go/token"
	"go/types"
	"sort"

	"golang.org/x/tools/go/ssa"
)

// Effects is the syntactic, transitive may-write summary of a function: which heap components it
// may write at pre-existing indices (W), which only through initialising fresh allocations (A).
type Effects struct {
	W, A        map[string]bool
	Allocs      bool
	Dynamic     bool     // contains a call through a function value (user callback)
	Unknown     []string // calls to externals without a model
	GlobalW     []string // writes through package-level variables (position strings)
	Unsupported []string // instructions outside the supported subset
}

type EffectsDB struct {
	enc  *Enc
	fns  map[*ssa.Function]*Effects
	impl map[string][]*ssa.Function // "Code.render" -> implementations
	api  *Effects                   // union over exported functions (effect of a user callback)
	all  []*ssa.Function
}

// externEffects: std-lib functions with an assumed contract and the components they write.
var externEffects = map[string][]string{
	"fmt.Sprintf": nil, "fmt.Errorf": nil, "fmt.Fprint": {"written", "nwrites", "failed"}, "fmt.Fprintf": {"written", "nwrites", "failed"},
	"(*bytes.Buffer).String": nil, "(*bytes.Buffer).Bytes": nil, "(*bytes.Buffer).Write": {"written", "nwrites"}, "(*bytes.Buffer).WriteString": {"written", "nwrites"},
	"strings.Contains": nil, "strings.HasSuffix": nil, "strings.HasPrefix": nil, "strings.ToLower": nil, "strings.LastIndex": nil,
	"strconv.Quote": nil, "strconv.QuoteRune": nil, "strconv.CanBackquote": nil,
	"sort.Strings": {"cells_String"}, "go/format.Source": nil,
	"unicode/utf8.DecodeRuneInString": nil, "unicode.IsDigit": nil,
	"regexp.MustCompile": nil, "(*regexp.Regexp).ReplaceAllString": nil,
	"os.WriteFile": {"fslog", "fsname", "fsdata"},
}

func NewEffectsDB(enc *Enc) *EffectsDB {
	db := &EffectsDB{enc: enc, fns: map[*ssa.Function]*Effects{}, impl: map[string][]*ssa.Function{}}
	for _, f := range allFunctions(enc) {
		db.all = append(db.all, f)
		db.fns[f] = db.direct(f)
	}
	// implementations of Code methods
	if enc.codeT != nil {
		iface := enc.codeT.Underlying().(*types.Interface)
		for i := 0; i < iface.NumMethods(); i++ {
			m := iface.Method(i)
			for _, T := range enc.codeImpls {
				sel := enc.prog.MethodSets.MethodSet(T).Lookup(m.Pkg(), m.Name())
				if sel == nil {
					continue
				}
				if fn := enc.prog.MethodValue(sel); fn != nil {
					db.impl["Code."+m.Name()] = append(db.impl["Code."+m.Name()], fn)
					if _, ok := db.fns[fn]; !ok {
						db.fns[fn] = db.direct(fn) // synthetic wrappers
						db.all = append(db.all, fn)
					}
				}
			}
		}
	}
	db.api = &Effects{W: map[string]bool{}, A: map[string]bool{}}
	// fixpoint
	for changed := true; changed; {
		changed = false
		// api effect = union over exported entry points
		for _, f := range db.all {
			if !isExportedFn(f) {
				continue
			}
			if merge(db.api, db.fns[f]) {
				changed = true
			}
		}
		for _, f := range db.all {
			e := db.fns[f]
			for _, b := range f.Blocks {
				for _, in := range b.Instrs {
					call, ok := in.(ssa.CallInstruction)
					if !ok {
						continue
					}
					cc := call.Common()
					if cc.IsInvoke() {
						key := ifaceKey(cc)
						for _, impl := range db.impl[key] {
							if merge(e, db.fns[impl]) {
								changed = true
							}
						}
						continue
					}
					switch callee := cc.Value.(type) {
					case *ssa.Function:
						if ce, ok := db.fns[callee]; ok {
							if merge(e, ce) {
								changed = true
							}
						}
					case *ssa.Builtin:
					default:
						if merge(e, db.api) {
							changed = true
						}
					}
				}
			}
		}
	}
	return db
}

func isExportedFn(f *ssa.Function) bool {
	if f.Object() == nil || !f.Object().Exported() {
		return false
	}
	if recv := f.Signature.Recv(); recv != nil {
		t := recv.Type()
		if p, ok := t.(*types.Pointer); ok {
			t = p.Elem()
		}
		if n, ok := t.(*types.Named); ok {
			return n.Obj().Exported()
		}
		return false
	}
	return true
}

func ifaceKey(cc *ssa.CallCommon) string {
	t := cc.Value.Type()
	name := "?"
	if n, ok := t.(*types.Named); ok {
		name = n.Obj().Name()
		if n.Obj().Pkg() != nil && n.Obj().Pkg().Name() != "jen" {
			name = n.Obj().Pkg().Name() + "." + name
		}
	}
	return name + "." + cc.Method.Name()
}

func merge(dst, src *Effects) bool {
	ch := false
	for k := range src.W {
		if !dst.W[k] {
			dst.W[k] = true
			ch = true
		}
	}
	for k := range src.A {
		if !dst.A[k] {
			dst.A[k] = true
			ch = true
		}
	}
	if src.Allocs && !dst.Allocs {
		dst.Allocs = true
		ch = true
	}
	if src.Dynamic && !dst.Dynamic {
		dst.Dynamic = true
		ch = true
	}
	for _, u := range src.Unknown {
		if !containsStr(dst.Unknown, u) {
			dst.Unknown = append(dst.Unknown, u)
			ch = true
		}
	}
	return ch
}

func containsStr(xs []string, s string) bool {
	for _, x := range xs {
		if x == s {
			return true
		}
	}
	return false
}

func allFunctions(enc *Enc) []*ssa.Function {
	seen := map[*ssa.Function]bool{}
	var out []*ssa.Function
	add := func(f *ssa.Function) {
		if f == nil || seen[f] || f.Blocks == nil {
			return
		}
		seen[f] = true
		out = append(out, f)
		for _, a := range f.AnonFuncs {
			if !seen[a] {
				seen[a] = true
				out = append(out, a)
			}
		}
	}
	for _, m := range enc.pkg.Members {
		switch m := m.(type) {
		case *ssa.Function:
			add(m)
		case *ssa.Type:
			for _, T := range []types.Type{m.Type(), types.NewPointer(m.Type())} {
				ms := enc.prog.MethodSets.MethodSet(T)
				for i := 0; i < ms.Len(); i++ {
					fn := enc.prog.MethodValue(ms.At(i))
					if fn != nil && fn.Pkg == enc.pkg && fn.Synthetic == "" {
						add(fn)
					}
				}
			}
		}
	}
	sort.Slice(out, func(i, j int) bool { return out[i].String() < out[j].String() })
	return out
}

// rootOf follows FieldAddr/IndexAddr chains to the value an address is derived from.
func rootOf(v ssa.Value) ssa.Value {
	for {
		switch x := v.(type) {
		case *ssa.FieldAddr:
			v = x.X
		case *ssa.IndexAddr:
			v = x.X
		default:
			return v
		}
	}
}

func (db *EffectsDB) direct(f *ssa.Function) *Effects {
	enc := db.enc
	e := &Effects{W: map[string]bool{}, A: map[string]bool{}}
	pos := func(p token.Pos) string { return enc.prog.Fset.Position(p).String() }
	writeAddr := func(addr ssa.Value, p token.Pos) {
		root := rootOf(addr)
		fresh := false
		switch r := root.(type) {
		case *ssa.Global:
			if f.Name() != "init" {
				e.GlobalW = append(e.GlobalW, fmt.Sprintf("%s: store through global %s", pos(p), r.Name()))
			}
			return
		case *ssa.Alloc:
			if !r.Heap {
				if _, isIdx := addr.(*ssa.IndexAddr); !isIdx {
					return // executor-level local
				}
			}
			fresh = true
		case *ssa.UnOp:
			// a slice/pointer loaded from a global: *global is read, then written through
			if g, ok := r.X.(*ssa.Global); ok && f.Name() != "init" {
				e.GlobalW = append(e.GlobalW, fmt.Sprintf("%s: store through a value loaded from global %s", pos(p), g.Name()))
			}
		}
		set := e.W
		if fresh {
			set = e.A
		}
		switch a := addr.(type) {
		case *ssa.FieldAddr:
			st := a.X.Type().Underlying().(*types.Pointer).Elem()
			set[enc.fieldComp(st, a.Field).Name] = true
		case *ssa.IndexAddr:
			var elem types.Type
			switch u := a.X.Type().Underlying().(type) {
			case *types.Slice:
				elem = u.Elem()
			case *types.Pointer:
				elem = u.Elem().Underlying().(*types.Array).Elem()
			}
			set[enc.cellsComp(enc.SortOf(elem)).Name] = true
		default:
			pt, ok := addr.Type().Underlying().(*types.Pointer)
			if !ok {
				return
			}
			if su, ok := pt.Elem().Underlying().(*types.Struct); ok {
				if n, isNamed := pt.Elem().(*types.Named); !isNamed || n.Obj().Pkg() == enc.tpkg {
					for i := 0; i < su.NumFields(); i++ {
						set[enc.fieldComp(pt.Elem(), i).Name] = true
					}
				}
			} else if _, isArr := pt.Elem().Underlying().(*types.Array); isArr {
				// whole-array store: not used
			} else {
				set[enc.derefComp(pt.Elem()).Name] = true
			}
		}
	}
	for _, b := range f.Blocks {
		for _, in := range b.Instrs {
			switch x := in.(type) {
			case *ssa.Store:
				writeAddr(x.Addr, x.Pos())
			case *ssa.MapUpdate:
				mt := x.Map.Type().Underlying().(*types.Map)
				root := x.Map
				if u, ok := root.(*ssa.UnOp); ok {
					if g, ok := u.X.(*ssa.Global); ok && f.Name() != "init" {
						e.GlobalW = append(e.GlobalW, fmt.Sprintf("%s: map update through global %s", pos(x.Pos()), g.Name()))
					}
				}
				if _, fresh := root.(*ssa.MakeMap); fresh {
					e.A[enc.mapComp(mt).Name] = true
				} else {
					e.W[enc.mapComp(mt).Name] = true
				}
			case *ssa.MakeMap:
				e.Allocs = true
				e.A[enc.mapComp(x.Type().Underlying().(*types.Map)).Name] = true
			case *ssa.Alloc:
				if x.Heap {
					e.Allocs = true
					el := x.Type().Underlying().(*types.Pointer).Elem()
					switch u := el.Underlying().(type) {
					case *types.Struct:
						if n, isNamed := el.(*types.Named); !isNamed || n.Obj().Pkg() == enc.tpkg {
							for i := 0; i < u.NumFields(); i++ {
								e.A[enc.fieldComp(el, i).Name] = true
							}
						} else if n.Obj().Pkg().Path() == "bytes" && n.Obj().Name() == "Buffer" {
							for _, g := range []string{"written", "nwrites", "failed", "isbuf"} {
								e.A[g] = true
							}
						}
					case *types.Array:
						e.A[enc.cellsComp(enc.SortOf(u.Elem())).Name] = true
					default:
						e.A[enc.derefComp(el).Name] = true
					}
				}
			case *ssa.Go, *ssa.Defer, *ssa.Select, *ssa.Send, *ssa.MakeChan, *ssa.MakeClosure, *ssa.RunDefers:
				e.Unsupported = append(e.Unsupported, fmt.Sprintf("%s: %T", pos(in.Pos()), in))
			}
			if call, ok := in.(ssa.CallInstruction); ok {
				cc := call.Common()
				if cc.IsInvoke() {
					if ifaceKey(cc) == "io.Writer.Write" {
						for _, g := range []string{"written", "nwrites", "failed"} {
							e.W[g] = true
						}
					}
					continue
				}
				switch callee := cc.Value.(type) {
				case *ssa.Builtin:
					if callee.Name() == "append" {
						sl := cc.Args[0].Type().Underlying().(*types.Slice)
						e.W[enc.cellsComp(enc.SortOf(sl.Elem())).Name] = true
						e.Allocs = true
					}
				case *ssa.Function:
					if callee.Blocks == nil || callee.Pkg != enc.pkg {
						name := callee.String()
						if ws, ok := externEffects[name]; ok {
							for _, w := range ws {
								e.W[w] = true
							}
						} else {
							e.Unknown = append(e.Unknown, name)
						}
					}
				default:
					e.Dynamic = true
					e.W["calls"] = true
				}
			}
		}
	}
	return e
}

func (e *Effects) Touches(comp string) bool { return e.W[comp] || e.A[comp] }

func (e *Effects) Comps() []string {
	m := map[string]bool{}
	for k := range e.W {
		m[k] = true
	}
	for k := range e.A {
		m[k] = true
	}
	return sortedKeys(m)
}
