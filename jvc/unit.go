package main

import (
	"fmt"
	"go/types"
	"os"
	"sort"
	"strings"

	"golang.org/x/tools/go/ssa"
)

// computeTreeReads evaluates every recursive spec definition once with symbolic arguments to
// find the heap components they read.
func (cx *Ctx) computeTreeReads() error {
	for _, n := range sortedKeys(cx.spec.recdefs) {
		rd := cx.spec.recdefs[n]
		vars := map[string]*Term{}
		for _, p := range rd.Params {
			var s string
			var gt types.Type
			var err error
			func() {
				defer func() {
					if r := recover(); r != nil {
						err = fmt.Errorf("%v", r)
					}
				}()
				s, gt = cx.ResolveType(p.Type)
			}()
			if err != nil {
				return fmt.Errorf("recdef %s: %v", n, err)
			}
			t := V("sym_"+p.Name, s)
			t.T = gt
			vars[p.Name] = t
		}
		cx.inTree++
		cx.curRec = append(cx.curRec, n)
		env := &Env{cx: cx, st: cx.tree, vars: vars}
		_, err := env.Eval(rd.Body)
		cx.curRec = cx.curRec[:len(cx.curRec)-1]
		cx.inTree--
		if err != nil {
			return fmt.Errorf("recdef %s: %v", n, err)
		}
	}
	// transitive closure of reads over the call relation between recursive definitions
	if cx.recReads == nil {
		cx.recReads = map[string]map[string]bool{}
	}
	for changed := true; changed; {
		changed = false
		for caller, callees := range cx.recCalls {
			for callee := range callees {
				for cn := range cx.recReads[callee] {
					if cx.recReads[caller] == nil {
						cx.recReads[caller] = map[string]bool{}
					}
					if !cx.recReads[caller][cn] {
						cx.recReads[caller][cn] = true
						changed = true
					}
				}
			}
		}
	}
	return nil
}

func (v *Verifier) NewUnit(fn *ssa.Function) *Unit {
	bc := v.boundContract(fn)
	u := &Unit{v: v, fn: fn, name: fnDisplay(fn), bc: bc, params: map[string]*Term{}, obs: map[string]*Obligation{},
		counters: map[string]int{}, siteNames: map[ssa.Instruction]map[string]string{}, globalsAssumed: map[string]bool{}}
	u.order = &[]string{}
	u.cx = NewCtx(v.enc, v.spec, u.name)
	u.entry = u.cx.InitState("0")
	u.cx.tree = u.entry
	if bc != nil && bc.own != nil {
		u.cx.fuel = bc.own.Unfold
		if len(bc.own.UnfoldNames) > 0 {
			u.cx.unfoldOnly = map[string]bool{}
			u.cx.unfoldDepth = map[string]int{}
			for _, n := range bc.own.UnfoldNames {
				name, depth, has := strings.Cut(n, ":")
				u.cx.unfoldOnly[name] = true
				if has {
					d := 1
					fmt.Sscan(depth, &d)
					u.cx.unfoldDepth[name] = d
				}
			}
		}
	}
	u.cx.globalHook = func(name string) (*Term, bool) {
		g, ok := v.enc.pkg.Members[name].(*ssa.Global)
		if !ok {
			return nil, false
		}
		dummy := &Path{st: u.entry}
		return v.globals.load(u, dummy, g), true
	}
	return u
}

func (u *Unit) Run() {
	defer func() {
		if r := recover(); r != nil {
			if ue, ok := r.(undecidedErr); ok {
				u.undecided = append(u.undecided, string(ue))
				return
			}
			if ee, ok := r.(evalErr); ok {
				u.undecided = append(u.undecided, "spec evaluation: "+string(ee))
				return
			}
			panic(r)
		}
	}()
	if err := u.cx.computeTreeReads(); err != nil {
		u.fail("%v", err)
	}
	eff := u.v.eff.fns[u.fn]
	if eff != nil && len(eff.Unsupported) > 0 {
		u.fail("outside the supported subset: %s", strings.Join(eff.Unsupported, "; "))
	}
	p := &Path{st: u.entry.Clone(), vals: map[ssa.Value]*Term{}, tuples: map[ssa.Value][]*Term{}, addrs: map[ssa.Value]*Addr{},
		locals: map[*ssa.Alloc]*Term{}, iters: map[ssa.Value]*IterState{}, names: map[string]ssa.Value{}, nameAddr: map[string]bool{},
		knownNN: map[string]bool{}, ghosts: map[string]*Term{}}
	p.assume(Ge(u.entry.Get(u.cx, "alloc"), IntLit(0)))
	for _, cn := range u.v.enc.compList {
		if inv := u.refInvariant(cn, u.entry.Get(u.cx, cn), u.entry.Get(u.cx, "alloc")); inv != nil {
			p.assume(inv)
		}
	}
	for _, prm := range u.fn.Params {
		name := prm.Name()
		t := u.cx.Named("p_"+mangle(name)+fmt.Sprintf("_%d", len(u.paramList)), u.v.enc.SortOf(prm.Type())).WithT(prm.Type())
		p.vals[prm] = t
		u.paramList = append(u.paramList, t)
		if name != "" && name != "_" {
			u.params[name] = t
		}
		u.assumeWF(p, t, prm.Type())
	}
	for _, c := range u.bc.Requires {
		env := u.clauseEnv(p, c.FromIface, u.paramList, nil, u.entry)
		g, err := env.EvalBool(c.Expr)
		if err != nil {
			u.fail("requires %s: %v", c.Label, err)
		}
		p.assume(g)
	}
	u.baseAssumes = len(p.assumes)
	u.cover(p, "precondition")
	u.findLoops()
	for ord := range u.bc.own.Invs {
		found := false
		for _, o := range u.loops {
			if o == ord {
				found = true
			}
		}
		if !found {
			// invariants are proof hints: those of a loop that no longer exists are dropped, the
			// postconditions still have to be proved for the code as it is
			fmt.Fprintf(os.Stderr, "jvc: note: contract of %s has invariants for loop %d but the function has %d loops; they are ignored\n", u.name, ord, len(u.loops))
		}
	}
	u.execFrom(p, u.fn.Blocks[0], nil, 0, false)
}

// Obligations returns the obligations in generation order.
func (u *Unit) Obligations() []*Obligation {
	var out []*Obligation
	for _, n := range *u.order {
		out = append(out, u.obs[n])
	}
	return out
}

func (u *Unit) facts() []*Term { return u.globalFacts }

// ---- whole-package obligations (syntactic, decided by the analyser itself) ----

type PkgObligation struct {
	Name   string
	Props  []string
	Holds  bool
	Detail string
	Desc   string
}

func (v *Verifier) PackageObligations() []*PkgObligation {
	var out []*PkgObligation
	// C09: no function writes a package-level variable
	var gw []string
	var unsupported []string
	for _, f := range v.eff.all {
		e := v.eff.fns[f]
		gw = append(gw, e.GlobalW...)
		for _, s := range e.Unsupported {
			if strings.Contains(s, "*ssa.Go") || strings.Contains(s, "MakeChan") || strings.Contains(s, "Select") || strings.Contains(s, "Send") {
				unsupported = append(unsupported, fnDisplay(f)+": "+s)
			}
		}
	}
	sort.Strings(gw)
	out = append(out, &PkgObligation{Name: "pkg#global-write-free", Props: []string{"C09", "C07"}, Holds: len(gw) == 0,
		Detail: strings.Join(gw, "; "), Desc: "no Store/MapUpdate in any function of the package targets a package-level variable or a value loaded from one (outside init)"})
	out = append(out, &PkgObligation{Name: "pkg#no-concurrency-primitives", Props: []string{"C09"}, Holds: len(unsupported) == 0,
		Detail: strings.Join(unsupported, "; "), Desc: "no go statement, channel operation or select in the package"})
	// C04/C08: who writes File.imports, who calls register
	var writers, callers []string
	for _, f := range v.eff.all {
		for _, b := range f.Blocks {
			for _, in := range b.Instrs {
				switch x := in.(type) {
				case *ssa.MapUpdate:
					if ld, ok := x.Map.(*ssa.UnOp); ok {
						if fa, ok := ld.X.(*ssa.FieldAddr); ok {
							st := fa.X.Type().Underlying().(*types.Pointer).Elem()
							if su, ok := st.Underlying().(*types.Struct); ok && v.enc.structName(st) == "File" && su.Field(fa.Field).Name() == "imports" {
								writers = append(writers, fnDisplay(f))
							}
						}
					}
				case *ssa.Store:
					if fa, ok := x.Addr.(*ssa.FieldAddr); ok {
						st := fa.X.Type().Underlying().(*types.Pointer).Elem()
						if su, ok := st.Underlying().(*types.Struct); ok && v.enc.structName(st) == "File" && su.Field(fa.Field).Name() == "imports" {
							if _, fresh := rootOf(x.Addr).(*ssa.Alloc); !fresh {
								writers = append(writers, fnDisplay(f)+" (field assignment)")
							}
						}
					}
				case ssa.CallInstruction:
					if callee, ok := x.Common().Value.(*ssa.Function); ok && fnDisplay(callee) == "File.register" {
						callers = append(callers, fnDisplay(f))
					}
				}
			}
		}
	}
	uniqStr := func(xs []string) []string {
		m := map[string]bool{}
		for _, x := range xs {
			m[x] = true
		}
		return sortedKeys(m)
	}
	writers, callers = uniqStr(writers), uniqStr(callers)
	okW := true
	for _, w := range writers {
		if w != "File.register" && w != "File.Anon" {
			okW = false
		}
	}
	out = append(out, &PkgObligation{Name: "pkg#imports-writers", Props: []string{"C04", "C08"}, Holds: okW,
		Detail: strings.Join(writers, ", "), Desc: "File.imports is updated only by register and Anon (and initialised by the constructors); found: " + strings.Join(writers, ", ")})
	okC := true
	for _, c := range callers {
		if c != "token.render" && c != "Group.renderItems" {
			okC = false
		}
	}
	out = append(out, &PkgObligation{Name: "pkg#register-callers", Props: []string{"C04", "C08"}, Holds: okC,
		Detail: strings.Join(callers, ", "), Desc: "register is called only while rendering a package token (token.render, Group.renderItems); found: " + strings.Join(callers, ", ")})
	// C02/C12: every token value built in the package satisfies the token type invariant (wfTok) by
	// construction, and no function assigns to a field of an existing token. This is what justifies
	// assuming treeOK (every stored item is a well-formed token or another Code) in the render contracts.
	{
		var bad []string
		sites := 0
		textual := map[string]bool{"package": true, "identifier": true, "keyword": true, "operator": true, "delimiter": true, "layout": true, "qualified": true}
		for _, f := range v.eff.all {
			for _, b := range f.Blocks {
				for _, in := range b.Instrs {
					al, ok := in.(*ssa.Alloc)
					if !ok {
						continue
					}
					el := al.Type().Underlying().(*types.Pointer).Elem()
					if n, ok := el.(*types.Named); !ok || n.Obj().Name() != "token" || n.Obj().Pkg() != v.enc.tpkg {
						continue
					}
					sites++
					typ, contentT := "", types.Type(nil)
					hasTyp := false
					for _, ref := range *al.Referrers() {
						fa, ok := ref.(*ssa.FieldAddr)
						if !ok {
							continue
						}
						for _, r2 := range *fa.Referrers() {
							st, ok := r2.(*ssa.Store)
							if !ok || st.Addr != ssa.Value(fa) {
								continue
							}
							if fa.Field == 0 {
								if c, ok := st.Val.(*ssa.Const); ok {
									if s, ok := stringConst(c); ok {
										typ, hasTyp = s, true
									}
								}
							} else if mi, ok := st.Val.(*ssa.MakeInterface); ok {
								contentT = mi.X.Type()
							} else {
								contentT = st.Val.Type() // already an interface{}: any value (Lit's documented precondition)
							}
						}
					}
					where := fnDisplay(f)
					switch {
					case !hasTyp:
						// a local that receives an existing token (type assertion, range variable): not a construction site
						sites--
					case textual[typ]:
						if b, ok := contentT.(*types.Basic); !ok || b.Kind() != types.String {
							bad = append(bad, fmt.Sprintf("%s: %s token whose content is %v, not a string", where, typ, contentT))
						}
					case typ == "literal_rune":
						if b, ok := contentT.(*types.Basic); !ok || b.Kind() != types.Int32 {
							bad = append(bad, fmt.Sprintf("%s: rune literal token whose content is %v", where, contentT))
						}
					case typ == "literal_byte":
						if b, ok := contentT.(*types.Basic); !ok || b.Kind() != types.Uint8 {
							bad = append(bad, fmt.Sprintf("%s: byte literal token whose content is %v", where, contentT))
						}
					case typ == "literal", typ == "null":
					default:
						bad = append(bad, fmt.Sprintf("%s: token of unknown type %q", where, typ))
					}
				}
			}
		}
		out = append(out, &PkgObligation{Name: "pkg#token-sites", Props: []string{"C02", "C12", "C11", "C01", "C13"}, Holds: len(bad) == 0 && sites > 0,
			Detail: strings.Join(bad, "; "), Desc: fmt.Sprintf("all %d construction sites of token values pair the token type with a content of the right static type (string for textual tokens, rune for rune literals, byte for byte literals)", sites)})
	}
	// C02: the tree invariant treeOK is preserved by everything outside code (callbacks, callers) can reach:
	// every exported function that may write a component treeOK reads has a postcondition `tree`
	// (obligation <F>#post.tree), or writes such components not at all.
	if _, has := v.spec.recdefs["treeOK"]; has {
		cx := NewCtx(v.enc, v.spec, "pkg")
		cx.tree = cx.InitState("P")
		var bad []string
		n := 0
		if err := cx.computeTreeReads(); err != nil {
			bad = append(bad, err.Error())
		}
		reads := cx.recReads["treeOK"]
		for _, f := range v.eff.all {
			if !isExportedFn(f) {
				continue
			}
			e := v.eff.fns[f]
			touches := ""
			for cn := range reads {
				if e.W[cn] || e.A[cn] {
					touches = cn
				}
			}
			if touches == "" && !e.Dynamic {
				continue
			}
			n++
			c := v.contracts.byKey[fnKey(f)]
			ok := false
			if c != nil {
				for _, cl := range c.Ensures {
					if cl.Label == "tree" && !cl.Free {
						ok = true
					}
				}
			}
			if !ok {
				bad = append(bad, fmt.Sprintf("%s may write %s but has no postcondition `tree`", fnDisplay(f), touches))
			}
		}
		sort.Strings(bad)
		out = append(out, &PkgObligation{Name: "pkg#tree-invariant-api", Props: []string{"C02", "C11", "C12"}, Holds: len(bad) == 0 && n > 0,
			Detail: strings.Join(bad, "; "), Desc: fmt.Sprintf("all %d exported functions that can change the Code tree (or run a callback) have the postcondition treeOK()", n)})
	}
	// C14: every construct exists as function, *Statement method and *Group method with the same parameters
	{
		var bad []string
		n := 0
		stT := v.enc.tpkg.Scope().Lookup("Statement")
		grT := v.enc.tpkg.Scope().Lookup("Group")
		if stT != nil && grT != nil {
			ms := types.NewMethodSet(types.NewPointer(stT.Type()))
			sigOf := func(sig *types.Signature) string {
				var ps []string
				for i := 0; i < sig.Params().Len(); i++ {
					ps = append(ps, sig.Params().At(i).Type().String())
				}
				return strings.Join(ps, ",") + fmt.Sprint(sig.Variadic())
			}
			notConstructs := map[string]bool{"Clone": true, "GoString": true, "Render": true, "RenderWithFile": true}
			for i := 0; i < ms.Len(); i++ {
				m := ms.At(i).Obj().(*types.Func)
				if !m.Exported() || notConstructs[m.Name()] {
					continue
				}
				sig := m.Type().(*types.Signature)
				if sig.Results().Len() != 1 || sig.Results().At(0).Type().String() != "*github.com/dave/jennifer/jen.Statement" {
					continue
				}
				n++
				fobj, _ := v.enc.tpkg.Scope().Lookup(m.Name()).(*types.Func)
				gobj, _, _ := types.LookupFieldOrMethod(types.NewPointer(grT.Type()), true, v.enc.tpkg, m.Name())
				gf, _ := gobj.(*types.Func)
				switch {
				case fobj == nil:
					bad = append(bad, m.Name()+": no package-level function")
				case gf == nil:
					bad = append(bad, m.Name()+": no *Group method")
				case sigOf(fobj.Type().(*types.Signature)) != sigOf(sig) || sigOf(gf.Type().(*types.Signature)) != sigOf(sig):
					bad = append(bad, m.Name()+": the three forms take different parameters")
				}
			}
		}
		out = append(out, &PkgObligation{Name: "pkg#api-forms", Props: []string{"C14"}, Holds: len(bad) == 0 && n > 0,
			Detail: strings.Join(bad, "; "), Desc: fmt.Sprintf("each of the %d exported constructs (enumerated from the method set of *Statement) also exists as a package function and as a *Group method with identical parameters", n)})
	}
	// C07/C03: the result of register is a function of what it reads (justifies regName/regImp)
	if reg := v.fnByKey["(*File).register"]; reg != nil {
		why := v.functionalWhyNot(reg, map[*ssa.Function]bool{})
		out = append(out, &PkgObligation{Name: "File.register#functional", Props: []string{"C07", "C03", "C08", "C01", "C13"}, Holds: why == "",
			Detail: why, Desc: "register and the functions it calls contain no map iteration, interface call, callback or unmodelled call, except callees whose contract determines their result exactly (ensures result == expr): so (result, imports') is a function of the File fields and table it reads, which is what the spec functions regName/regImp denote"})
	}
	// globals of the package and who references them
	var globals []string
	for _, m := range v.enc.pkg.Members {
		if g, ok := m.(*ssa.Global); ok && !strings.HasPrefix(g.Name(), "init$") {
			globals = append(globals, g.Name())
		}
	}
	sort.Strings(globals)
	known := map[string]bool{}
	for n := range v.globals.strSlices {
		known[n] = true
	}
	for n := range v.globals.strMaps {
		known[n] = true
	}
	var unknown []string
	for _, g := range globals {
		if !known[g] {
			unknown = append(unknown, g)
		}
	}
	out = append(out, &PkgObligation{Name: "pkg#globals-are-ground-tables", Props: []string{"C09", "C07"}, Holds: len(unknown) == 0,
		Detail: strings.Join(unknown, ", "), Desc: "every package-level variable is a table initialised by a composite literal of constants (" + strings.Join(globals, ", ") + ")"})
	return out
}

// determinedResult: some ensures clause has the form  result == e  /  result <==> e  with e not mentioning result.
func (v *Verifier) determinedResult(fn *ssa.Function) bool {
	bc := v.boundContract(fn)
	if bc == nil {
		return false
	}
	for _, c := range bc.Ensures {
		e := c.Expr
		if e.Kind == "binary" && (e.Op == "==" || e.Op == "<==>") && e.X.Kind == "ident" && e.X.Name == "result" && !strings.Contains(e.Y.String(), "result") {
			return true
		}
	}
	return false
}

var deterministicExterns = map[string]bool{
	"fmt.Sprintf": true, "strings.Contains": true, "strings.HasSuffix": true, "strings.HasPrefix": true, "strings.ToLower": true,
	"strings.LastIndex": true, "regexp.MustCompile": true, "(*regexp.Regexp).ReplaceAllString": true,
	"unicode/utf8.DecodeRuneInString": true, "unicode.IsDigit": true, "strconv.Quote": true,
}

// functionalWhyNot returns "" when fn computes a function of its reads, else the reason.
func (v *Verifier) functionalWhyNot(fn *ssa.Function, seen map[*ssa.Function]bool) string {
	if seen[fn] {
		return ""
	}
	seen[fn] = true
	for _, b := range fn.Blocks {
		for _, in := range b.Instrs {
			switch x := in.(type) {
			case *ssa.Range:
				if _, isMap := x.X.Type().Underlying().(*types.Map); isMap {
					return fnDisplay(fn) + " iterates over a map"
				}
			case *ssa.Go, *ssa.Select, *ssa.Send, *ssa.MakeChan:
				return fnDisplay(fn) + " uses concurrency primitives"
			case ssa.CallInstruction:
				cc := x.Common()
				if cc.IsInvoke() {
					return fnDisplay(fn) + " makes an interface call"
				}
				switch callee := cc.Value.(type) {
				case *ssa.Builtin:
				case *ssa.Function:
					if callee.Pkg != v.enc.pkg || callee.Blocks == nil {
						// functions of the pure std-lib packages (strings, strconv, unicode, ...) are functions of their arguments
						if !deterministicExterns[callee.String()] && !(callee.Pkg != nil && pureStdPkgs[callee.Pkg.Pkg.Path()]) {
							return fnDisplay(fn) + " calls " + callee.String()
						}
						continue
					}
					if v.determinedResult(callee) {
						continue
					}
					if why := v.functionalWhyNot(callee, seen); why != "" {
						return why
					}
				default:
					return fnDisplay(fn) + " calls through a function value"
				}
			}
		}
	}
	return ""
}
