package main

import (
	"fmt"
	"go/ast"
	goparser "go/parser"
	"go/token"
	"os"
	"os/exec"
	"path/filepath"
	"sort"
	"strconv"
	"strings"
)

// stdNames lists the standard library of the installed toolchain: import path -> declared package name.
func stdNames() (map[string]string, error) {
	cmd := exec.Command("go", "list", "-f", "{{.ImportPath}} {{.Name}}", "std")
	cmd.Dir = repoDir
	cmd.Env = append(os.Environ(), "GOFLAGS=-mod=mod", "GOPROXY=off", "GOSUMDB=off", "GOTOOLCHAIN=local")
	out, err := cmd.Output()
	if err != nil {
		return nil, fmt.Errorf("go list std: %v", err)
	}
	m := map[string]string{}
	for _, ln := range strings.Split(strings.TrimSpace(string(out)), "\n") {
		f := strings.Fields(ln)
		if len(f) == 2 {
			m[f[0]] = f[1]
		}
	}
	return m, nil
}

func init() {
	// C18: every entry of standardLibraryHints names the package as its package clause declares it.
	tableChecks = append(tableChecks, func(r *Run) []*ObResult {
		if r.Prop != "all" && r.Prop != "C18" && r.Prop != "C03" && r.Prop != "C05" {
			return nil
		}
		tbl, ok := r.L.v.globals.strMaps["standardLibraryHints"]
		if !ok {
			return []*ObResult{{Name: "table#stdhints", Kind: "table", Props: []string{"C18"}, Status: "error", Detail: "standardLibraryHints is not a ground map literal", Queries: 1}}
		}
		var out []*ObResult
		// identifiers (justifies the 'free requires stdtable' of register)
		var bad []string
		for _, p := range sortedKeys(tbl) {
			if n := tbl[p]; !token.IsIdentifier(n) || n == "_" {
				bad = append(bad, fmt.Sprintf("%s -> %q", p, n))
			}
		}
		st := "discharged"
		if len(bad) > 0 {
			st = "refuted"
		}
		out = append(out, &ObResult{Name: "table#stdhints.identifiers", Kind: "table", Props: []string{"C18", "C05", "C03"}, Status: st, Solver: "ground",
			Src: "every value of standardLibraryHints is a Go identifier other than _ (discharges register's free precondition 'stdtable')", Detail: strings.Join(bad, "; "), Queries: len(tbl)})
		if r.Prop == "C05" {
			return out
		}
		std, err := stdNames()
		if err != nil {
			return append(out, &ObResult{Name: "table#stdhints", Kind: "table", Props: []string{"C18"}, Status: "error", Detail: err.Error(), Queries: 1})
		}
		var missing []string
		for _, p := range sortedKeys(tbl) {
			real, ok := std[p]
			if !ok {
				missing = append(missing, p)
				continue
			}
			res := &ObResult{Name: "table#stdhints[" + p + "]", Kind: "table", Props: []string{"C18", "C03"}, Status: "discharged", Solver: "ground",
				Src: fmt.Sprintf("standardLibraryHints[%q] == name in the package clause of GOROOT/src/%s", p, p), Queries: 1}
			if real != tbl[p] {
				res.Status = "refuted"
				res.Detail = fmt.Sprintf("table says %q, the toolchain's package is named %q", tbl[p], real)
			}
			out = append(out, res)
		}
		sort.Strings(missing)
		out = append(out, &ObResult{Name: "table#stdhints.coverage", Kind: "table", Props: []string{"C18"}, Status: "discharged", Solver: "ground",
			Src: fmt.Sprintf("%d table entries compared with the %d packages of `go list std`; not in this toolchain (platform-specific), skipped: %s", len(tbl)-len(missing), len(std), strings.Join(missing, ", ")), Queries: 1})
		return out
	})
}

// genjenTable reads the construct table of the generator (/repo/genjen/data.go) from its AST.
func genjenTable() (groups map[string]map[string]string, keywords, identifiers []string, err error) {
	fset := token.NewFileSet()
	f, perr := goparser.ParseFile(fset, filepath.Join(repoDir, "genjen", "data.go"), nil, 0)
	if perr != nil {
		return nil, nil, nil, perr
	}
	groups = map[string]map[string]string{}
	strs := func(cl *ast.CompositeLit) []string {
		var out []string
		for _, e := range cl.Elts {
			if bl, ok := e.(*ast.BasicLit); ok {
				s, _ := strconv.Unquote(bl.Value)
				out = append(out, s)
			}
		}
		return out
	}
	for _, d := range f.Decls {
		gd, ok := d.(*ast.GenDecl)
		if !ok {
			continue
		}
		for _, sp := range gd.Specs {
			vs, ok := sp.(*ast.ValueSpec)
			if !ok || len(vs.Values) != 1 {
				continue
			}
			cl, ok := vs.Values[0].(*ast.CompositeLit)
			if !ok {
				continue
			}
			switch vs.Names[0].Name {
			case "keywords":
				keywords = strs(cl)
			case "identifiers":
				identifiers = strs(cl)
			case "groups":
				for _, e := range cl.Elts {
					row, ok := e.(*ast.CompositeLit)
					if !ok {
						continue
					}
					m := map[string]string{"opening": "", "closing": "", "separator": "", "multi": "false"}
					for _, kv := range row.Elts {
						k, ok := kv.(*ast.KeyValueExpr)
						if !ok {
							continue
						}
						key := k.Key.(*ast.Ident).Name
						switch v := k.Value.(type) {
						case *ast.BasicLit:
							s, _ := strconv.Unquote(v.Value)
							m[key] = s
						case *ast.Ident:
							m[key] = v.Name
						}
					}
					groups[m["name"]] = m
				}
			}
		}
	}
	return
}

func init() {
	// C01/C14: the generator's table and the construct table of the contracts describe the same constructs
	tableChecks = append(tableChecks, func(r *Run) []*ObResult {
		if r.Prop != "all" && r.Prop != "C01" && r.Prop != "C14" {
			return nil
		}
		groups, keywords, identifiers, err := genjenTable()
		if err != nil {
			return []*ObResult{{Name: "table#genjen", Kind: "table", Props: []string{"C01", "C14"}, Status: "error", Detail: err.Error(), Queries: 1}}
		}
		rows := map[string]*Construct{}
		for _, c := range r.L.v.contracts.constructs {
			rows[c.Name] = c
		}
		var out []*ObResult
		title := func(s string) string { return strings.ToUpper(s[:1]) + s[1:] }
		for _, name := range sortedKeys(groups) {
			g := groups[name]
			res := &ObResult{Name: "table#genjen.group[" + name + "]", Kind: "table", Props: []string{"C01", "C14"}, Status: "discharged", Solver: "ground", Queries: 1,
				Src: "genjen/data.go and the construct table agree on open/close/separator/multi of " + name}
			row := rows[name]
			switch {
			case row == nil:
				res.Status, res.Detail = "refuted", "no construct row for generator entry "+name
			case row.Open != g["opening"] || row.Close != g["closing"] || row.Sep != g["separator"] || fmt.Sprint(row.Multi) != g["multi"]:
				res.Status = "refuted"
				res.Detail = fmt.Sprintf("generator: open=%q close=%q sep=%q multi=%s; construct table: open=%q close=%q sep=%q multi=%v", g["opening"], g["closing"], g["separator"], g["multi"], row.Open, row.Close, row.Sep, row.Multi)
			}
			out = append(out, res)
		}
		for _, kind := range []struct {
			typ   string
			words []string
		}{{"keyword", keywords}, {"identifier", identifiers}} {
			for _, w := range kind.words {
				res := &ObResult{Name: "table#genjen." + kind.typ + "[" + w + "]", Kind: "table", Props: []string{"C01", "C14"}, Status: "discharged", Solver: "ground", Queries: 1,
					Src: "genjen/data.go and the construct table agree on the " + kind.typ + " token " + w}
				row := rows[title(w)]
				if row == nil || row.TokTyp != kind.typ || row.TokTxt != w {
					res.Status, res.Detail = "refuted", "no matching construct row for "+kind.typ+" "+w
				}
				out = append(out, res)
			}
		}
		return out
	})
}
