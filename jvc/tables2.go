package main

import (
	"fmt"
	"go/token"
	"os"
	"os/exec"
	"sort"
	"strings"
)

// stdNames lists the standard library of the installed toolchain: import path -> declared package name.
func stdNames() (map[string]string, error) {
	cmd := exec.Command("go", "list", "-f", "{{.ImportPath}} {{.Name}}", "std")
	cmd.Dir = repoDir
	cmd.Env = append(os.Environ(), "GOFLAGS=-mod=mod", "GOPROXY=off", "GOSUMDB=off", "GOTOOLCHAIN=local")
	out, err := cmd.Output()
	if err != nil {
		return nil, fmt.Errorf("go list std: %v", err)
	}
	m := map[string]string{}
	for _, ln := range strings.Split(strings.TrimSpace(string(out)), "\n") {
		f := strings.Fields(ln)
		if len(f) == 2 {
			m[f[0]] = f[1]
		}
	}
	return m, nil
}

func init() {
	// C18: every entry of standardLibraryHints names the package as its package clause declares it.
	tableChecks = append(tableChecks, func(r *Run) []*ObResult {
		if r.Prop != "all" && r.Prop != "C18" && r.Prop != "C03" && r.Prop != "C05" {
			return nil
		}
		tbl, ok := r.L.v.globals.strMaps["standardLibraryHints"]
		if !ok {
			return []*ObResult{{Name: "table#stdhints", Kind: "table", Props: []string{"C18"}, Status: "error", Detail: "standardLibraryHints is not a ground map literal", Queries: 1}}
		}
		var out []*ObResult
		// identifiers (justifies the 'free requires stdtable' of register)
		var bad []string
		for _, p := range sortedKeys(tbl) {
			if n := tbl[p]; !token.IsIdentifier(n) || n == "_" {
				bad = append(bad, fmt.Sprintf("%s -> %q", p, n))
			}
		}
		st := "discharged"
		if len(bad) > 0 {
			st = "refuted"
		}
		out = append(out, &ObResult{Name: "table#stdhints.identifiers", Kind: "table", Props: []string{"C18", "C05", "C03"}, Status: st, Solver: "ground",
			Src: "every value of standardLibraryHints is a Go identifier other than _ (discharges register's free precondition 'stdtable')", Detail: strings.Join(bad, "; "), Queries: len(tbl)})
		if r.Prop == "C05" {
			return out
		}
		std, err := stdNames()
		if err != nil {
			return append(out, &ObResult{Name: "table#stdhints", Kind: "table", Props: []string{"C18"}, Status: "error", Detail: err.Error(), Queries: 1})
		}
		var missing []string
		for _, p := range sortedKeys(tbl) {
			real, ok := std[p]
			if !ok {
				missing = append(missing, p)
				continue
			}
			res := &ObResult{Name: "table#stdhints[" + p + "]", Kind: "table", Props: []string{"C18", "C03"}, Status: "discharged", Solver: "ground",
				Src: fmt.Sprintf("standardLibraryHints[%q] == name in the package clause of GOROOT/src/%s", p, p), Queries: 1}
			if real != tbl[p] {
				res.Status = "refuted"
				res.Detail = fmt.Sprintf("table says %q, the toolchain's package is named %q", tbl[p], real)
			}
			out = append(out, res)
		}
		sort.Strings(missing)
		out = append(out, &ObResult{Name: "table#stdhints.coverage", Kind: "table", Props: []string{"C18"}, Status: "discharged", Solver: "ground",
			Src: fmt.Sprintf("%d table entries compared with the %d packages of `go list std`; not in this toolchain (platform-specific), skipped: %s", len(tbl)-len(missing), len(std), strings.Join(missing, ", ")), Queries: 1})
		return out
	})
}
