package main

import (
	"fmt"
	"go/types"
	"sort"
	"strconv"
	"strings"
)

// Term is an SMT-LIB term with its sort. Terms are immutable once built.
type Term struct {
	Op   string  // function symbol, constant name, or one of: #int #str #bool forall exists let
	Args []*Term // arguments (for quantifiers: the body is Args[0])
	Sort string
	BV   []*Term    // bound variables of a quantifier
	Pats [][]*Term  // optional patterns
	T    types.Type // Go type when known (metadata only, not part of identity)
	Lit  string     // literal payload for #int / #str / #bool
	str  string
}

const (
	SInt  = "Int"
	SBool = "Bool"
	SStr  = "String"
)

func ArrSort(k, v string) string { return "(Array " + k + " " + v + ")" }

// arrParts splits "(Array K V)" into K and V.
func arrParts(s string) (string, string, bool) {
	if !strings.HasPrefix(s, "(Array ") {
		return "", "", false
	}
	in := s[len("(Array ") : len(s)-1]
	depth := 0
	for i := 0; i < len(in); i++ {
		switch in[i] {
		case '(':
			depth++
		case ')':
			depth--
		case ' ':
			if depth == 0 {
				return in[:i], in[i+1:], true
			}
		}
	}
	return "", "", false
}

func V(name, sort string) *Term { return &Term{Op: name, Sort: sort} }

func App(op, sort string, args ...*Term) *Term {
	for _, a := range args {
		if a == nil {
			panic("nil arg to " + op)
		}
	}
	return &Term{Op: op, Sort: sort, Args: args}
}

func IntLit(n int64) *Term  { return &Term{Op: "#int", Sort: SInt, Lit: strconv.FormatInt(n, 10)} }
func StrLit(s string) *Term { return &Term{Op: "#str", Sort: SStr, Lit: s} }
func BoolLit(b bool) *Term {
	if b {
		return tTrue
	}
	return tFalse
}

var tTrue = &Term{Op: "#bool", Sort: SBool, Lit: "true"}
var tFalse = &Term{Op: "#bool", Sort: SBool, Lit: "false"}

func (t *Term) IsTrue() bool  { return t.Op == "#bool" && t.Lit == "true" }
func (t *Term) IsFalse() bool { return t.Op == "#bool" && t.Lit == "false" }
func (t *Term) IsLit() bool   { return t.Op == "#int" || t.Op == "#str" || t.Op == "#bool" }

func (t *Term) WithT(ty types.Type) *Term {
	if t.T == ty {
		return t
	}
	c := *t
	c.T = ty
	return &c
}

func smtString(s string) string {
	var b strings.Builder
	b.WriteByte('"')
	for _, r := range []byte(s) {
		switch {
		case r == '"':
			b.WriteString(`""`)
		case r == '\\':
			b.WriteString(`\u{5c}`)
		case r >= 32 && r < 127:
			b.WriteByte(r)
		default:
			fmt.Fprintf(&b, `\u{%x}`, r)
		}
	}
	b.WriteByte('"')
	return b.String()
}

func (t *Term) String() string {
	if t.str != "" {
		return t.str
	}
	var s string
	switch t.Op {
	case "#int":
		if strings.HasPrefix(t.Lit, "-") {
			s = "(- " + t.Lit[1:] + ")"
		} else {
			s = t.Lit
		}
	case "#str":
		s = smtString(t.Lit)
	case "#bool":
		s = t.Lit
	case "forall", "exists":
		var b strings.Builder
		b.WriteString("(" + t.Op + " (")
		for i, v := range t.BV {
			if i > 0 {
				b.WriteByte(' ')
			}
			b.WriteString("(" + v.Op + " " + v.Sort + ")")
		}
		b.WriteString(") ")
		if len(t.Pats) > 0 {
			b.WriteString("(! " + t.Args[0].String())
			for _, p := range t.Pats {
				b.WriteString(" :pattern (")
				for i, x := range p {
					if i > 0 {
						b.WriteByte(' ')
					}
					b.WriteString(x.String())
				}
				b.WriteString(")")
			}
			b.WriteString(")")
		} else {
			b.WriteString(t.Args[0].String())
		}
		b.WriteString(")")
		s = b.String()
	default:
		if len(t.Args) == 0 {
			s = t.Op
		} else {
			var b strings.Builder
			b.WriteString("(" + t.Op)
			for _, a := range t.Args {
				b.WriteByte(' ')
				b.WriteString(a.String())
			}
			b.WriteByte(')')
			s = b.String()
		}
	}
	t.str = s
	return s
}

func same(a, b *Term) bool { return a == b || a.String() == b.String() }

// ---- smart constructors ----

func Not(a *Term) *Term {
	if a.IsTrue() {
		return tFalse
	}
	if a.IsFalse() {
		return tTrue
	}
	if a.Op == "not" {
		return a.Args[0]
	}
	return App("not", SBool, a)
}

func And(as ...*Term) *Term {
	var out []*Term
	for _, a := range as {
		if a.IsTrue() {
			continue
		}
		if a.IsFalse() {
			return tFalse
		}
		if a.Op == "and" {
			out = append(out, a.Args...)
		} else {
			out = append(out, a)
		}
	}
	if len(out) == 0 {
		return tTrue
	}
	if len(out) == 1 {
		return out[0]
	}
	return App("and", SBool, out...)
}

func Or(as ...*Term) *Term {
	var out []*Term
	for _, a := range as {
		if a.IsFalse() {
			continue
		}
		if a.IsTrue() {
			return tTrue
		}
		if a.Op == "or" {
			out = append(out, a.Args...)
		} else {
			out = append(out, a)
		}
	}
	if len(out) == 0 {
		return tFalse
	}
	if len(out) == 1 {
		return out[0]
	}
	return App("or", SBool, out...)
}

func Imp(a, b *Term) *Term {
	if a.IsTrue() {
		return b
	}
	if a.IsFalse() || b.IsTrue() {
		return tTrue
	}
	if b.IsFalse() {
		return Not(a)
	}
	return App("=>", SBool, a, b)
}

func Eq(a, b *Term) *Term {
	if a.Sort != b.Sort {
		panic(fmt.Sprintf("Eq sort mismatch: %s : %s  vs  %s : %s", a, a.Sort, b, b.Sort))
	}
	if same(a, b) {
		return tTrue
	}
	if a.IsLit() && b.IsLit() {
		return BoolLit(a.Lit == b.Lit)
	}
	if a.Sort == SBool {
		if b.IsTrue() {
			return a
		}
		if a.IsTrue() {
			return b
		}
		if b.IsFalse() {
			return Not(a)
		}
		if a.IsFalse() {
			return Not(b)
		}
	}
	return App("=", SBool, a, b)
}

func Neq(a, b *Term) *Term { return Not(Eq(a, b)) }

func Ite(c, a, b *Term) *Term {
	if c.IsTrue() {
		return a
	}
	if c.IsFalse() {
		return b
	}
	if same(a, b) {
		return a
	}
	if a.Sort != b.Sort {
		panic(fmt.Sprintf("Ite sort mismatch: %s vs %s", a.Sort, b.Sort))
	}
	if a.Sort == SBool {
		if a.IsTrue() && b.IsFalse() {
			return c
		}
		if a.IsFalse() && b.IsTrue() {
			return Not(c)
		}
	}
	r := App("ite", a.Sort, c, a, b)
	r.T = a.T
	return r
}

func Select(a, i *Term) *Term {
	k, v, ok := arrParts(a.Sort)
	if !ok {
		panic("select on non-array " + a.String() + " : " + a.Sort)
	}
	if k != i.Sort {
		panic(fmt.Sprintf("select index sort %s, want %s in %s", i.Sort, k, a))
	}
	// select over store with syntactically equal / distinct-literal index
	for a.Op == "store" {
		if same(a.Args[1], i) {
			return a.Args[2]
		}
		if a.Args[1].IsLit() && i.IsLit() {
			a = a.Args[0]
			continue
		}
		break
	}
	if a.Op == "const-array" {
		return a.Args[0]
	}
	return App("select", v, a, i)
}

func Store(a, i, v *Term) *Term {
	k, vs, ok := arrParts(a.Sort)
	if !ok {
		panic("store on non-array " + a.String())
	}
	if k != i.Sort || vs != v.Sort {
		panic(fmt.Sprintf("store sort mismatch: %s [%s] := %s   (array %s)", a, i.Sort, v.Sort, a.Sort))
	}
	return App("store", a.Sort, a, i, v)
}

// ConstArray builds ((as const (Array K V)) v); printed specially.
func ConstArray(sort string, v *Term) *Term {
	return &Term{Op: "const-array", Sort: sort, Args: []*Term{v}, str: "((as const " + sort + ") " + v.String() + ")"}
}

func Add(a, b *Term) *Term {
	if a.Op == "#int" && b.Op == "#int" {
		x, _ := strconv.ParseInt(a.Lit, 10, 64)
		y, _ := strconv.ParseInt(b.Lit, 10, 64)
		return IntLit(x + y)
	}
	if b.Op == "#int" && b.Lit == "0" {
		return a
	}
	if a.Op == "#int" && a.Lit == "0" {
		return b
	}
	// (x + c1) + c2 -> x + (c1+c2);  (x - c1) + c2 likewise
	if b.Op == "#int" && len(a.Args) == 2 && a.Args[1].Op == "#int" {
		c1, _ := strconv.ParseInt(a.Args[1].Lit, 10, 64)
		c2, _ := strconv.ParseInt(b.Lit, 10, 64)
		if a.Op == "+" {
			return addConst(a.Args[0], c1+c2)
		}
		if a.Op == "-" {
			return addConst(a.Args[0], c2-c1)
		}
	}
	return App("+", SInt, a, b)
}

func addConst(x *Term, c int64) *Term {
	if c == 0 {
		return x
	}
	if c < 0 {
		return App("-", SInt, x, IntLit(-c))
	}
	return App("+", SInt, x, IntLit(c))
}
func Sub(a, b *Term) *Term {
	if a.Op == "#int" && b.Op == "#int" {
		x, _ := strconv.ParseInt(a.Lit, 10, 64)
		y, _ := strconv.ParseInt(b.Lit, 10, 64)
		return IntLit(x - y)
	}
	if b.Op == "#int" && b.Lit == "0" {
		return a
	}
	if b.Op == "#int" && len(a.Args) == 2 && a.Args[1].Op == "#int" {
		c1, _ := strconv.ParseInt(a.Args[1].Lit, 10, 64)
		c2, _ := strconv.ParseInt(b.Lit, 10, 64)
		if a.Op == "+" {
			return addConst(a.Args[0], c1-c2)
		}
		if a.Op == "-" {
			return addConst(a.Args[0], -c1-c2)
		}
	}
	return App("-", SInt, a, b)
}
func Lt(a, b *Term) *Term { return cmp("<", a, b) }
func Le(a, b *Term) *Term { return cmp("<=", a, b) }
func Gt(a, b *Term) *Term { return cmp(">", a, b) }
func Ge(a, b *Term) *Term { return cmp(">=", a, b) }
func cmp(op string, a, b *Term) *Term {
	if a.Op == "#int" && b.Op == "#int" {
		x, _ := strconv.ParseInt(a.Lit, 10, 64)
		y, _ := strconv.ParseInt(b.Lit, 10, 64)
		switch op {
		case "<":
			return BoolLit(x < y)
		case "<=":
			return BoolLit(x <= y)
		case ">":
			return BoolLit(x > y)
		case ">=":
			return BoolLit(x >= y)
		}
	}
	return App(op, SBool, a, b)
}

func Concat(a, b *Term) *Term {
	if a.Op == "#str" && a.Lit == "" {
		return b
	}
	if b.Op == "#str" && b.Lit == "" {
		return a
	}
	if a.Op == "#str" && b.Op == "#str" {
		return StrLit(a.Lit + b.Lit)
	}
	var args []*Term
	if a.Op == "str.++" {
		args = append(args, a.Args...)
	} else {
		args = append(args, a)
	}
	if b.Op == "str.++" {
		args = append(args, b.Args...)
	} else {
		args = append(args, b)
	}
	// merge adjacent literals
	var out []*Term
	for _, x := range args {
		if n := len(out); n > 0 && out[n-1].Op == "#str" && x.Op == "#str" {
			out[n-1] = StrLit(out[n-1].Lit + x.Lit)
		} else {
			out = append(out, x)
		}
	}
	return App("str.++", SStr, out...)
}

func Forall(vars []*Term, body *Term, pats ...[]*Term) *Term {
	if body.IsTrue() || len(vars) == 0 {
		return body
	}
	return &Term{Op: "forall", Sort: SBool, BV: vars, Args: []*Term{body}, Pats: validPatterns(vars, pats)}
}

// validPatterns keeps the multi-patterns that are well-formed triggers: every element is an
// application (not a literal, variable or boolean connective) and together they bind all variables.
func validPatterns(vars []*Term, pats [][]*Term) [][]*Term {
	var out [][]*Term
	for _, p := range pats {
		syms := map[string]bool{}
		ok := len(p) > 0
		for _, t := range p {
			switch t.Op {
			case "#int", "#str", "#bool", "and", "or", "not", "=>", "=", "ite", "forall", "exists", "<", "<=", ">", ">=", "+", "-":
				ok = false
			}
			if len(t.Args) == 0 {
				ok = false
			}
			collectSyms(t, map[string]bool{}, syms)
		}
		for _, v := range vars {
			if !syms[v.Op] {
				ok = false
			}
		}
		if ok {
			out = append(out, p)
		}
	}
	return out
}
func Exists(vars []*Term, body *Term) *Term {
	if body.IsFalse() || len(vars) == 0 {
		return body
	}
	return &Term{Op: "exists", Sort: SBool, BV: vars, Args: []*Term{body}}
}

// Subst replaces free occurrences of variables (nullary terms named in m).
func Subst(t *Term, m map[string]*Term) *Term {
	if len(m) == 0 {
		return t
	}
	return subst(t, m)
}

func subst(t *Term, m map[string]*Term) *Term {
	switch t.Op {
	case "#int", "#str", "#bool":
		return t
	case "forall", "exists":
		m2 := m
		for _, v := range t.BV {
			if _, ok := m2[v.Op]; ok {
				if &m2 == &m || len(m2) == len(m) {
					m2 = map[string]*Term{}
					for k, x := range m {
						m2[k] = x
					}
				}
				delete(m2, v.Op)
			}
		}
		nb := subst(t.Args[0], m2)
		var np [][]*Term
		for _, p := range t.Pats {
			var q []*Term
			for _, x := range p {
				q = append(q, subst(x, m2))
			}
			np = append(np, q)
		}
		if t.Op == "forall" {
			np = validPatterns(t.BV, np)
		}
		return &Term{Op: t.Op, Sort: t.Sort, BV: t.BV, Args: []*Term{nb}, Pats: np}
	}
	if len(t.Args) == 0 {
		if r, ok := m[t.Op]; ok {
			return r
		}
		return t
	}
	changed := false
	na := make([]*Term, len(t.Args))
	for i, a := range t.Args {
		na[i] = subst(a, m)
		if na[i] != a {
			changed = true
		}
	}
	if !changed {
		return t
	}
	if t.Op == "const-array" {
		return ConstArray(t.Sort, na[0])
	}
	return rebuild(t, na)
}

// rebuild re-applies the smart constructors after substitution.
func rebuild(t *Term, na []*Term) *Term {
	switch t.Op {
	case "and":
		return And(na...)
	case "or":
		return Or(na...)
	case "not":
		return Not(na[0])
	case "=>":
		return Imp(na[0], na[1])
	case "=":
		if len(na) == 2 && na[0].Sort == na[1].Sort {
			return Eq(na[0], na[1])
		}
	case "ite":
		return Ite(na[0], na[1], na[2])
	case "select":
		return Select(na[0], na[1])
	case "+":
		if len(na) == 2 {
			return Add(na[0], na[1])
		}
	case "-":
		if len(na) == 2 {
			return Sub(na[0], na[1])
		}
	case "<", "<=", ">", ">=":
		return cmp(t.Op, na[0], na[1])
	case "str.++":
		r := na[0]
		for _, x := range na[1:] {
			r = Concat(r, x)
		}
		return r
	}
	r := &Term{Op: t.Op, Sort: t.Sort, Args: na, T: t.T}
	return simplifyApp(r)
}

// simplifyApp hooks datatype selector/tester simplification (set by enc).
var simplifyApp = func(t *Term) *Term { return t }

// freeSyms collects the names of nullary symbols and applied function symbols in t.
func collectSyms(t *Term, bound map[string]bool, out map[string]bool) {
	switch t.Op {
	case "#int", "#str", "#bool":
		return
	case "forall", "exists":
		nb := map[string]bool{}
		for k := range bound {
			nb[k] = true
		}
		for _, v := range t.BV {
			nb[v.Op] = true
		}
		collectSyms(t.Args[0], nb, out)
		for _, p := range t.Pats {
			for _, x := range p {
				collectSyms(x, nb, out)
			}
		}
		return
	case "const-array":
		collectSyms(t.Args[0], bound, out)
		return
	}
	if len(t.Args) == 0 {
		if !bound[t.Op] {
			out[t.Op] = true
		}
		return
	}
	out[t.Op] = true
	for _, a := range t.Args {
		collectSyms(a, bound, out)
	}
}

func sortedKeys[V any](m map[string]V) []string {
	ks := make([]string, 0, len(m))
	for k := range m {
		ks = append(ks, k)
	}
	sort.Strings(ks)
	return ks
}
