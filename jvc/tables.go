package main

// tableObligations: ground obligations about package-level tables (filled in tables2.go).
func (r *Run) tableObligations() []*ObResult {
	var out []*ObResult
	for _, f := range tableChecks {
		out = append(out, f(r)...)
	}
	return out
}

var tableChecks []func(r *Run) []*ObResult
