package main

import (
	"fmt"
	"go/types"
	"os"
	"path/filepath"
	"sort"
	"strings"
)

type Def struct {
	Name   string
	Params []QVar
	Ret    string
	Body   *Expr
	Src    string
}

type RecDef struct {
	Def
	RetT types.Type
}

type Axiom struct {
	Name string
	Body *Expr
	File string
}

type Lemma struct {
	Name    string
	Props   []string
	Vars    []QVar
	Hyps    []*Expr // assumptions (after "assuming")
	Body    *Expr
	Fuel    int
	Induct  string // variable to do induction over (optional)
	File    string
	Use     bool // once proved, available to function VCs as a quantified fact
	Trigger *Expr
}

type Spec struct {
	aliases map[string]string
	defs    map[string]*Def
	recdefs map[string]*RecDef
	axioms  []*Axiom
	lemmas  []*Lemma
	pending []func(cx *Ctx) // declarations that need the encoder (run once)
	trusted []string
	globalQ map[string]bool // recursive definitions that quantify over pointers or maps
}

func NewSpec() *Spec {
	return &Spec{aliases: map[string]string{}, defs: map[string]*Def{}, recdefs: map[string]*RecDef{}}
}

// splitStatements groups a prelude/contract text into statements: a statement starts at a line
// whose first character is not blank; indented lines continue it. '#' starts a comment line.
func splitStatements(text string) []string {
	var out []string
	for _, ln := range strings.Split(text, "\n") {
		trim := strings.TrimSpace(ln)
		if trim == "" || strings.HasPrefix(trim, "#") {
			continue
		}
		if ln[0] == ' ' || ln[0] == '\t' {
			if len(out) > 0 {
				out[len(out)-1] += " " + trim
			}
			continue
		}
		out = append(out, trim)
	}
	return out
}

func parseParams(s string) ([]QVar, error) {
	s = strings.TrimSpace(s)
	if s == "" {
		return nil, nil
	}
	var out []QVar
	for _, p := range splitTop(s, ',') {
		f := strings.Fields(p)
		if len(f) != 2 {
			return nil, fmt.Errorf("bad parameter %q", p)
		}
		out = append(out, QVar{f[0], f[1]})
	}
	return out, nil
}

func splitTop(s string, sep byte) []string {
	var out []string
	depth := 0
	start := 0
	for i := 0; i < len(s); i++ {
		switch s[i] {
		case '(', '[':
			depth++
		case ')', ']':
			depth--
		case sep:
			if depth == 0 {
				out = append(out, strings.TrimSpace(s[start:i]))
				start = i + 1
			}
		}
	}
	out = append(out, strings.TrimSpace(s[start:]))
	return out
}

// header parses "name(params) ret" returning name, params, ret.
func parseHeader(h string) (string, []QVar, string, error) {
	i := strings.IndexByte(h, '(')
	if i < 0 {
		return strings.TrimSpace(h), nil, "", nil
	}
	depth := 0
	j := i
	for ; j < len(h); j++ {
		if h[j] == '(' {
			depth++
		} else if h[j] == ')' {
			depth--
			if depth == 0 {
				break
			}
		}
	}
	ps, err := parseParams(h[i+1 : j])
	if err != nil {
		return "", nil, "", err
	}
	return strings.TrimSpace(h[:i]), ps, strings.TrimSpace(h[j+1:]), nil
}

func (sp *Spec) LoadFile(path string) error {
	b, err := os.ReadFile(path)
	if err != nil {
		return err
	}
	base := filepath.Base(path)
	for _, st := range splitStatements(string(b)) {
		if err := sp.addStatement(st, base); err != nil {
			return fmt.Errorf("%s: %v\n  in: %s", base, err, st)
		}
	}
	return nil
}

func (sp *Spec) addStatement(st, file string) error {
	kw, rest, _ := strings.Cut(st, " ")
	rest = strings.TrimSpace(rest)
	switch kw {
	case "alias":
		n, v, ok := strings.Cut(rest, "=")
		if !ok {
			return fmt.Errorf("alias needs '='")
		}
		sp.aliases[strings.TrimSpace(n)] = strings.TrimSpace(v)
	case "sort":
		name := rest
		sp.pending = append(sp.pending, func(cx *Ctx) { cx.enc.usorts[name] = true })
	case "datatype":
		n, v, ok := strings.Cut(rest, "=")
		if !ok {
			return fmt.Errorf("datatype needs '='")
		}
		name := strings.TrimSpace(n)
		var ctors [][2]string
		for _, c := range splitTop(v, '|') {
			cn, ps, _, err := parseHeader(c)
			if err != nil {
				return err
			}
			_ = ps
			i := strings.IndexByte(c, '(')
			args := ""
			if i >= 0 {
				args = c[i+1 : strings.LastIndexByte(c, ')')]
			}
			ctors = append(ctors, [2]string{cn, args})
		}
		sp.pending = append(sp.pending, func(cx *Ctx) {
			d := &DT{Name: name}
			for _, c := range ctors {
				ps, err := parseParams(c[1])
				if err != nil {
					panic(err)
				}
				ct := DTCtor{Name: c[0]}
				for _, p := range ps {
					s, _ := cx.ResolveType(p.Type)
					ct.Fields = append(ct.Fields, DTField{name + "_" + p.Name, s})
				}
				d.Ctors = append(d.Ctors, ct)
			}
			cx.enc.addDT(d)
		})
	case "fun":
		name, ps, ret, err := parseHeader(rest)
		if err != nil {
			return err
		}
		sp.pending = append(sp.pending, func(cx *Ctx) {
			var as []string
			for _, p := range ps {
				s, _ := cx.ResolveType(p.Type)
				as = append(as, s)
			}
			r, _ := cx.ResolveType(ret)
			cx.enc.declFun(name, as, r)
		})
	case "def", "recdef":
		h, body, ok := strings.Cut(rest, ":=")
		if !ok {
			return fmt.Errorf("%s needs ':='", kw)
		}
		name, ps, ret, err := parseHeader(h)
		if err != nil {
			return err
		}
		e, err := ParseExpr(body)
		if err != nil {
			return err
		}
		d := Def{Name: name, Params: ps, Ret: ret, Body: e, Src: st}
		if kw == "def" {
			sp.defs[name] = &d
		} else {
			rd := &RecDef{Def: d}
			sp.recdefs[name] = rd
			sp.pending = append(sp.pending, func(cx *Ctx) {
				var as []string
				for _, p := range ps {
					s, _ := cx.ResolveType(p.Type)
					as = append(as, s)
				}
				r, gt := cx.ResolveType(ret)
				rd.RetT = gt
				cx.enc.declFun(name, as, r)
			})
		}
	case "axiom":
		n, body, ok := strings.Cut(rest, ":")
		if !ok {
			return fmt.Errorf("axiom needs 'name:'")
		}
		e, err := ParseExpr(body)
		if err != nil {
			return err
		}
		sp.axioms = append(sp.axioms, &Axiom{Name: strings.TrimSpace(n), Body: e, File: file})
	case "lemma":
		// lemma name [C13,C01] (vars) fuel N: [assuming h1; h2 ::] body
		head, body, ok := cutColon(rest)
		if !ok {
			return fmt.Errorf("lemma needs 'name ...:'")
		}
		l := &Lemma{File: file, Fuel: 2}
		hf := head
		if i := strings.IndexByte(hf, '['); i >= 0 {
			j := strings.IndexByte(hf, ']')
			for _, p := range strings.Split(hf[i+1:j], ",") {
				l.Props = append(l.Props, strings.TrimSpace(p))
			}
			hf = hf[:i] + hf[j+1:]
		}
		if i := strings.IndexByte(hf, '('); i >= 0 {
			j := strings.LastIndexByte(hf, ')')
			vs, err := parseParams(hf[i+1 : j])
			if err != nil {
				return err
			}
			l.Vars = vs
			hf = hf[:i] + hf[j+1:]
		}
		fs := strings.Fields(hf)
		l.Name = fs[0]
		for i := 1; i < len(fs); i++ {
			switch fs[i] {
			case "fuel":
				if i+1 < len(fs) {
					fmt.Sscan(fs[i+1], &l.Fuel)
					i++
				}
			case "induct":
				if i+1 < len(fs) {
					l.Induct = fs[i+1]
					i++
				}
			case "use":
				l.Use = true
			}
		}
		if tb := strings.TrimSpace(body); strings.HasPrefix(tb, "trigger ") {
			tr, rest, ok := strings.Cut(tb[len("trigger "):], ";;")
			if !ok {
				return fmt.Errorf("lemma 'trigger' must end with ';;'")
			}
			te, err := ParseExpr(tr)
			if err != nil {
				return err
			}
			l.Trigger = te
			body = rest
		}
		if strings.HasPrefix(strings.TrimSpace(body), "assuming ") {
			hs, b2, ok := strings.Cut(strings.TrimSpace(body)[len("assuming "):], "|-")
			if !ok {
				return fmt.Errorf("lemma 'assuming' needs '|-'")
			}
			for _, h := range splitTop(hs, ';') {
				e, err := ParseExpr(h)
				if err != nil {
					return err
				}
				l.Hyps = append(l.Hyps, e)
			}
			body = b2
		}
		e, err := ParseExpr(body)
		if err != nil {
			return err
		}
		l.Body = e
		sp.lemmas = append(sp.lemmas, l)
	case "trusted":
		sp.trusted = append(sp.trusted, rest)
	default:
		return fmt.Errorf("unknown prelude statement %q", kw)
	}
	return nil
}

// cutColon cuts at the first ':' that is not part of '::' or ':='.
func cutColon(s string) (string, string, bool) {
	for i := 0; i < len(s); i++ {
		if s[i] == ':' {
			if i+1 < len(s) && (s[i+1] == ':' || s[i+1] == '=') {
				i++
				continue
			}
			return s[:i], s[i+1:], true
		}
	}
	return s, "", false
}

// Finish runs the declarations that needed the encoder.
func (sp *Spec) Finish(cx *Ctx) (err error) {
	defer func() {
		if r := recover(); r != nil {
			if ee, ok := r.(evalErr); ok {
				err = fmt.Errorf("prelude: %s", string(ee))
				return
			}
			panic(r)
		}
	}()
	for _, f := range sp.pending {
		f(cx)
	}
	sp.pending = nil
	return nil
}

// ---- recursive definition unfolding ----

// unfoldRecDefs returns defining equations for applications of recursive spec functions that
// occur (outside binders) in the given terms, to the given depth.
func (cx *Ctx) unfoldRecDefs(terms []*Term, fuel int) ([]*Term, error) {
	seen := map[string]bool{}
	var eqs []*Term
	frontier := terms
	maxRounds := fuel
	for _, d := range cx.unfoldDepth {
		if d > maxRounds {
			maxRounds = d
		}
	}
	for round := 0; round < maxRounds; round++ {
		var apps []*Term
		for _, t := range frontier {
			cx.collectApps(t, map[string]bool{}, seen, &apps)
		}
		if len(apps) == 0 {
			break
		}
		sort.Slice(apps, func(i, j int) bool { return apps[i].String() < apps[j].String() })
		var next []*Term
		for _, a := range apps {
			base, epoch := epochOf(a.Op)
			depth := fuel
			if d, ok := cx.unfoldDepth[base]; ok {
				depth = d
			}
			if round >= depth {
				continue
			}
			rd := cx.spec.recdefs[base]
			vars := map[string]*Term{}
			for i, p := range rd.Params {
				_, gt := cx.ResolveType(p.Type)
				arg := a.Args[i]
				if gt != nil {
					arg = arg.WithT(gt)
				}
				vars[p.Name] = arg
			}
			cx.inTree++
			env := &Env{cx: cx, st: cx.treeFor(epoch), old: nil, vars: vars, epochSt: cx.treeFor(epoch), forceEpoch: epoch != ""}
			body, err := env.Eval(rd.Body)
			cx.inTree--
			if err != nil {
				return nil, fmt.Errorf("unfolding %s: %v", rd.Name, err)
			}
			if body.Sort != a.Sort {
				return nil, fmt.Errorf("unfolding %s: body sort %s, declared %s", rd.Name, body.Sort, a.Sort)
			}
			eqs = append(eqs, Eq(a, body))
			next = append(next, body)
		}
		frontier = next
	}
	return eqs, nil
}

func (cx *Ctx) collectApps(t *Term, bound map[string]bool, seen map[string]bool, out *[]*Term) {
	switch t.Op {
	case "#int", "#str", "#bool":
		return
	case "forall", "exists":
		nb := map[string]bool{}
		for k := range bound {
			nb[k] = true
		}
		for _, v := range t.BV {
			nb[v.Op] = true
		}
		cx.collectApps(t.Args[0], nb, seen, out)
		return
	}
	for _, a := range t.Args {
		cx.collectApps(a, bound, seen, out)
	}
	base, _ := epochOf(t.Op)
	if _, ok := cx.spec.recdefs[base]; ok && !bound[t.Op] && (cx.unfoldOnly == nil || cx.unfoldOnly[base]) {
		if len(bound) > 0 {
			syms := map[string]bool{}
			collectSyms(t, map[string]bool{}, syms)
			for b := range bound {
				if syms[b] {
					return
				}
			}
		}
		k := t.String()
		if !seen[k] {
			seen[k] = true
			*out = append(*out, t)
		}
	}
}

// quantifiesOverRefs: the definition (or one it calls) quantifies over pointers or maps, so its value depends
// on every object of the heap, not only on what its arguments reach.
func (sp *Spec) quantifiesOverRefs(name string) bool {
	if sp.globalQ == nil {
		sp.globalQ = map[string]bool{}
		var has func(e *Expr) bool
		has = func(e *Expr) bool {
			if e == nil {
				return false
			}
			if e.Kind == "quant" {
				for _, v := range e.Vars {
					if strings.HasPrefix(v.Type, "*") || v.Type == "Dict" || v.Type == "ref" || strings.HasPrefix(v.Type, "map[") {
						return true
					}
				}
			}
			if e.Kind == "call" {
				if d, ok := sp.defs[e.Name]; ok && has(d.Body) {
					return true
				}
			}
			for _, x := range []*Expr{e.X, e.Y, e.Z} {
				if has(x) {
					return true
				}
			}
			for _, a := range e.Args {
				if has(a) {
					return true
				}
			}
			return false
		}
		for n, rd := range sp.recdefs {
			sp.globalQ[n] = has(rd.Body)
		}
		for changed := true; changed; {
			changed = false
			for n, rd := range sp.recdefs {
				if sp.globalQ[n] {
					continue
				}
				var calls func(e *Expr) bool
				calls = func(e *Expr) bool {
					if e == nil {
						return false
					}
					if e.Kind == "call" && sp.globalQ[e.Name] {
						return true
					}
					for _, x := range []*Expr{e.X, e.Y, e.Z} {
						if calls(x) {
							return true
						}
					}
					for _, a := range e.Args {
						if calls(a) {
							return true
						}
					}
					return false
				}
				if calls(rd.Body) {
					sp.globalQ[n] = true
					changed = true
				}
			}
		}
	}
	return sp.globalQ[name]
}
