package main

import (
	"fmt"
	"os"
	"regexp"
	"strconv"
	"strings"
)

type Clause struct {
	Kind      string // requires ensures invariant panics
	Props     []string
	Label     string
	Expr      *Expr
	Src       string
	Loop      int
	Free      bool     // assumed, not checked ("free" invariant / requires) — listed as assumption
	Unfold    []string // recursive/opaque definitions to unfold when this clause is checked
	Local     bool     // loop invariant that is forgotten when the loop is left (keeps later queries small)
	EntryOnly bool     // proved when the loop is entered and used for the following entry checks only
	AtExit    bool     // proved (and then assumed) on every edge that leaves the loop
}

type Contract struct {
	Key         string // RelString of the function, or Iface.method
	IsIface     bool
	RecvName    string // interface contracts: name that stands for the receiver
	ParamNames  []string
	Implements  string
	Requires    []*Clause
	Ensures     []*Clause
	Panics      []*Clause
	Modifies    []*Expr
	ModSrc      []string
	Invs        map[int][]*Clause
	Flags       map[string]bool
	Unfold      int
	UnfoldNames []string
	CutLoops    map[int]bool // loops at whose head everything but the precondition and the invariants is forgotten
	Line        int
	Props       []string
	renames     map[string]string // identifier of the contract -> name the code uses now (see Env.evalRenaming)
	mentioned   map[string]bool
}

// mentionedIdents: every identifier that occurs in a clause of the contract.
func (c *Contract) mentionedIdents() map[string]bool {
	if c.mentioned != nil {
		return c.mentioned
	}
	c.mentioned = map[string]bool{}
	var walk func(e *Expr)
	walk = func(e *Expr) {
		if e == nil {
			return
		}
		if e.Kind == "ident" {
			c.mentioned[e.Name] = true
		}
		walk(e.X)
		walk(e.Y)
		walk(e.Z)
		for _, a := range e.Args {
			walk(a)
		}
		for _, p := range e.Pats {
			for _, x := range p {
				walk(x)
			}
		}
	}
	for _, cl := range c.Requires {
		walk(cl.Expr)
	}
	for _, cl := range c.Ensures {
		walk(cl.Expr)
	}
	for _, cl := range c.Panics {
		walk(cl.Expr)
	}
	for _, m := range c.Modifies {
		walk(m)
	}
	for _, invs := range c.Invs {
		for _, cl := range invs {
			walk(cl.Expr)
		}
	}
	return c.mentioned
}

type Contracts struct {
	byKey map[string]*Contract
	order []string
	// construct table rows for generated builders
	constructs []*Construct
	raw        []string
}

type Construct struct {
	Name             string // exported Go name e.g. Parens
	Kind             string // group | token
	Params           string // item | items | none ...
	Open, Close, Sep string
	Multi            bool
	GName            string // Group.name
	TokTyp           string
	TokTxt           string
	Line             int
}

var labelRe = regexp.MustCompile(`^([A-Za-z0-9_.\-]+):\s`)
var unfoldRe = regexp.MustCompile(`^unfold\(([A-Za-z0-9_:,\s]+)\)\s*`)
var propsRe = regexp.MustCompile(`^\[([A-Za-z0-9,\s]+)\]\s*`)

func LoadContracts(path string) (*Contracts, error) {
	b, err := os.ReadFile(path)
	if err != nil {
		return nil, err
	}
	cs := &Contracts{byKey: map[string]*Contract{}}
	// collect //@ lines, preserving indentation after the marker
	type line struct {
		s string
		n int
	}
	var lines []line
	for i, ln := range strings.Split(string(b), "\n") {
		t := strings.TrimLeft(ln, " \t")
		if strings.HasPrefix(t, "//@") {
			lines = append(lines, line{strings.TrimRight(t[3:], " \t"), i + 1})
		}
	}
	// join continuation lines: a line continues the previous clause when its first word is not a keyword
	kw := map[string]bool{"func": true, "interface": true, "requires": true, "ensures": true, "modifies": true, "loop": true,
		"panics": true, "flag": true, "implements": true, "unfold": true, "construct": true, "free": true}
	var stmts []line
	for _, l := range lines {
		t := strings.TrimSpace(l.s)
		if t == "" || strings.HasPrefix(t, "#") {
			continue
		}
		first, _, _ := strings.Cut(t, " ")
		if kw[first] || len(stmts) == 0 {
			stmts = append(stmts, line{t, l.n})
		} else {
			stmts[len(stmts)-1].s += " " + t
		}
	}
	var cur *Contract
	for _, st := range stmts {
		first, rest, _ := strings.Cut(st.s, " ")
		rest = strings.TrimSpace(rest)
		fail := func(f string, a ...interface{}) error {
			return fmt.Errorf("%s:%d: %s", path, st.n, fmt.Sprintf(f, a...))
		}
		switch first {
		case "func", "interface":
			key := rest
			var cprops []string
			if i := strings.LastIndexByte(key, '['); i >= 0 && strings.HasSuffix(key, "]") {
				for _, p := range strings.Split(key[i+1:len(key)-1], ",") {
					cprops = append(cprops, strings.TrimSpace(p))
				}
				key = strings.TrimSpace(key[:i])
				rest = key
			}
			c := &Contract{Props: cprops, Key: key, IsIface: first == "interface", Invs: map[int][]*Clause{}, Flags: map[string]bool{}, Line: st.n}
			if first == "interface" {
				// interface Code.render(c; f, w, s)
				if i := strings.IndexByte(rest, '('); i >= 0 {
					c.Key = strings.TrimSpace(rest[:i])
					in := rest[i+1 : strings.LastIndexByte(rest, ')')]
					rv, ps, _ := strings.Cut(in, ";")
					c.RecvName = strings.TrimSpace(rv)
					for _, p := range strings.Split(ps, ",") {
						if p = strings.TrimSpace(p); p != "" {
							c.ParamNames = append(c.ParamNames, p)
						}
					}
				}
			}
			if _, dup := cs.byKey[c.Key]; dup {
				return nil, fail("duplicate contract for %s", c.Key)
			}
			cs.byKey[c.Key] = c
			cs.order = append(cs.order, c.Key)
			cur = c
		case "construct":
			f := parseKV(rest)
			con := &Construct{Name: f["_0"], Kind: f["kind"], Params: f["params"], Open: f["open"], Close: f["close"], Sep: f["sep"],
				Multi: f["multi"] == "true", GName: f["name"], TokTyp: f["typ"], TokTxt: f["text"], Line: st.n}
			cs.constructs = append(cs.constructs, con)
		default:
			if cur == nil {
				return nil, fail("clause outside a contract: %s", st.s)
			}
			free := false
			if first == "free" {
				free = true
				first, rest, _ = strings.Cut(rest, " ")
				rest = strings.TrimSpace(rest)
			}
			switch first {
			case "implements":
				cur.Implements = rest
			case "flag":
				for _, fl := range strings.Fields(rest) {
					cur.Flags[fl] = true
				}
			case "unfold":
				for _, w := range strings.Fields(rest) {
					if n, err := strconv.Atoi(w); err == nil {
						cur.Unfold = n
					} else {
						cur.UnfoldNames = append(cur.UnfoldNames, strings.Trim(w, ","))
					}
				}
			case "modifies":
				for _, m := range splitTop(rest, ',') {
					if m == "" {
						continue
					}
					e, err := ParseExpr(m)
					if err != nil {
						return nil, fail("%v", err)
					}
					cur.Modifies = append(cur.Modifies, e)
					cur.ModSrc = append(cur.ModSrc, m)
				}
			case "requires", "ensures", "panics", "loop":
				if first == "loop" {
					if f := strings.Fields(rest); len(f) == 2 && f[1] == "cut" {
						n, err := strconv.Atoi(f[0])
						if err != nil {
							return nil, fail("bad loop ordinal %q", f[0])
						}
						if cur.CutLoops == nil {
							cur.CutLoops = map[int]bool{}
						}
						cur.CutLoops[n] = true
						continue
					}
				}
				cl := &Clause{Kind: first, Free: free}
				if first == "loop" {
					// loop N invariant ...
					f := strings.Fields(rest)
					if len(f) < 3 || f[1] != "invariant" {
						return nil, fail("expected 'loop N invariant expr'")
					}
					n, err := strconv.Atoi(f[0])
					if err != nil {
						return nil, fail("bad loop ordinal %q", f[0])
					}
					cl.Kind = "invariant"
					cl.Loop = n
					rest = strings.TrimSpace(rest[strings.Index(rest, "invariant")+len("invariant"):])
					if strings.HasPrefix(rest, "local ") {
						cl.Local = true
						rest = strings.TrimSpace(rest[len("local "):])
					}
					if strings.HasPrefix(rest, "entry ") {
						cl.EntryOnly = true
						rest = strings.TrimSpace(rest[len("entry "):])
					}
					if strings.HasPrefix(rest, "exit ") {
						cl.AtExit = true
						rest = strings.TrimSpace(rest[len("exit "):])
					}
				}
				if m := propsRe.FindStringSubmatch(rest); m != nil {
					for _, p := range strings.Split(m[1], ",") {
						cl.Props = append(cl.Props, strings.TrimSpace(p))
					}
					rest = rest[len(m[0]):]
				}
				if m := unfoldRe.FindStringSubmatch(rest); m != nil {
					cl.Unfold = strings.Fields(m[1])
					rest = rest[len(m[0]):]
				}
				if m := labelRe.FindStringSubmatch(rest); m != nil {
					cl.Label = m[1]
					rest = rest[len(m[0]):]
				}
				if m := unfoldRe.FindStringSubmatch(rest); m != nil {
					cl.Unfold = strings.Fields(m[1])
					rest = rest[len(m[0]):]
				}
				e, err := ParseExpr(rest)
				if err != nil {
					return nil, fail("%v", err)
				}
				cl.Expr = e
				cl.Src = rest
				switch cl.Kind {
				case "requires":
					cur.Requires = append(cur.Requires, cl)
				case "ensures":
					cur.Ensures = append(cur.Ensures, cl)
				case "panics":
					cur.Panics = append(cur.Panics, cl)
				case "invariant":
					cur.Invs[cl.Loop] = append(cur.Invs[cl.Loop], cl)
				}
			default:
				return nil, fail("unknown clause %q", first)
			}
		}
	}
	// default labels: kind + ordinal
	for _, c := range cs.byKey {
		number := func(cls []*Clause, prefix string) {
			for i, cl := range cls {
				if cl.Label == "" {
					cl.Label = fmt.Sprintf("%s%d", prefix, i+1)
				}
			}
		}
		number(c.Requires, "r")
		number(c.Ensures, "e")
		number(c.Panics, "p")
		for _, n := range sortedIntKeys(c.Invs) {
			number(c.Invs[n], "i")
		}
	}
	return cs, nil
}

func sortedIntKeys[V any](m map[int]V) []int {
	var ks []int
	for k := range m {
		ks = append(ks, k)
	}
	for i := range ks {
		for j := i + 1; j < len(ks); j++ {
			if ks[j] < ks[i] {
				ks[i], ks[j] = ks[j], ks[i]
			}
		}
	}
	return ks
}

// parseKV parses `Name key=value key="quoted value"`; the bare first word is stored under _0.
func parseKV(s string) map[string]string {
	out := map[string]string{}
	i := 0
	n := 0
	for i < len(s) {
		for i < len(s) && s[i] == ' ' {
			i++
		}
		if i >= len(s) {
			break
		}
		j := i
		for j < len(s) && s[j] != ' ' && s[j] != '=' {
			j++
		}
		key := s[i:j]
		if j < len(s) && s[j] == '=' {
			j++
			var val string
			if j < len(s) && s[j] == '"' {
				k := j + 1
				for k < len(s) && s[k] != '"' {
					if s[k] == '\\' {
						k++
					}
					k++
				}
				val, _ = strconv.Unquote(s[j : k+1])
				j = k + 1
			} else {
				k := j
				for k < len(s) && s[k] != ' ' {
					k++
				}
				val = s[j:k]
				j = k
			}
			out[key] = val
		} else {
			out[fmt.Sprintf("_%d", n)] = key
			n++
		}
		i = j
	}
	return out
}
