package main

import (
	"fmt"
	"go/constant"
	"go/token"
	"go/types"
	"math/big"
	"os"
	"sort"
	"strings"

	"golang.org/x/tools/go/ssa"
)

// ---- obligations and queries ----

type Query struct {
	Ob      *Obligation
	Assumes []*Term
	Goal    *Term
	Path    string
	Cover   bool // vacuity check: satisfiable is good
	// filled by the solver stage
	Result string // unsat sat unknown timeout error
	Solver string
	Millis int64
	Model  string
	SMT    string
	Agreed []string
	Cx     *Ctx
	Vars   map[string]*Term // interesting values for replay (params, loop vars)
	Unfold []string         // clause-level additions to the unit's unfold list
}

type Obligation struct {
	Name    string
	Kind    string
	Props   []string
	Unit    string
	Src     string
	Queries []*Query
	Known   bool
	Unfold  []string
}

// Addr is an executor-level lvalue.
type Addr struct {
	Kind  string // field deref cell local global
	Base  *Term
	Comp  string
	Local *ssa.Alloc
	Arr   *Term
	Idx   *Term
	Path  []fieldStep // nested struct fields inside the stored value
	T     types.Type  // type of the pointee
	Glob  *ssa.Global
}

type fieldStep struct {
	sel string
	T   types.Type
}

type IterState struct {
	ks    *Term // (Array Int K)
	idx   *Term // inverse enumeration: (Array K Int)
	n     *Term
	i     *Term
	mv    *Term // map value at Range time
	ref   *Term
	comp  string
	mt    *types.Map
	prev  *Term
	facts []*Term // enumeration axioms (kept across loop cut points)
}

type Path struct {
	st         *State
	assumes    []*Term
	vals       map[ssa.Value]*Term
	tuples     map[ssa.Value][]*Term
	addrs      map[ssa.Value]*Addr
	locals     map[*ssa.Alloc]*Term
	iters      map[ssa.Value]*IterState
	names      map[string]ssa.Value // source-level names (DebugRef / phi comments)
	nameAddr   map[string]bool
	knownNN    map[string]bool // pointer terms already required non-nil on this path
	trace      []int
	depth      int
	ghosts     map[string]*Term
	loopEntry  map[int]*State  // per loop ordinal: the state when the loop was entered
	localFacts map[int][]*Term // per loop ordinal: assumptions to forget when the loop is left
}

func (p *Path) ghost(name string, t *Term) { p.ghosts[name] = t }

func (p *Path) clone() *Path {
	n := &Path{st: p.st.Clone(), assumes: append([]*Term(nil), p.assumes...),
		vals: map[ssa.Value]*Term{}, tuples: map[ssa.Value][]*Term{}, addrs: map[ssa.Value]*Addr{},
		locals: map[*ssa.Alloc]*Term{}, iters: map[ssa.Value]*IterState{}, names: map[string]ssa.Value{}, nameAddr: map[string]bool{},
		knownNN: map[string]bool{}, trace: append([]int(nil), p.trace...), depth: p.depth, ghosts: map[string]*Term{}}
	for k, v := range p.ghosts {
		n.ghosts[k] = v
	}
	if p.localFacts != nil {
		n.localFacts = map[int][]*Term{}
		for k, v := range p.localFacts {
			n.localFacts[k] = v
		}
	}
	if p.loopEntry != nil {
		n.loopEntry = map[int]*State{}
		for k, v := range p.loopEntry {
			n.loopEntry[k] = v
		}
	}
	for k, v := range p.vals {
		n.vals[k] = v
	}
	for k, v := range p.tuples {
		n.tuples[k] = v
	}
	for k, v := range p.addrs {
		n.addrs[k] = v
	}
	for k, v := range p.locals {
		n.locals[k] = v
	}
	for k, v := range p.iters {
		c := *v
		n.iters[k] = &c
	}
	for k, v := range p.names {
		n.names[k] = v
	}
	for k, v := range p.nameAddr {
		n.nameAddr[k] = v
	}
	for k, v := range p.knownNN {
		n.knownNN[k] = v
	}
	return n
}

func (p *Path) assume(t *Term) {
	if t == nil || t.IsTrue() {
		return
	}
	p.assumes = append(p.assumes, t)
}

// ---- the verifier ----

type Verifier struct {
	enc       *Enc
	spec      *Spec
	contracts *Contracts
	eff       *EffectsDB
	fnByKey   map[string]*ssa.Function
	globals   *GlobalTables
	maxPaths  int
	fuel      int
	bound     map[*ssa.Function]*BoundContract
}

// Unit is the verification of one function body against its contract.
type Unit struct {
	v              *Verifier
	fn             *ssa.Function
	name           string // display name
	bc             *BoundContract
	cx             *Ctx
	entry          *State
	params         map[string]*Term
	paramList      []*Term
	obs            map[string]*Obligation
	order          *[]string
	undecided      []string
	pendingFork    []fork
	pathDead       bool
	trusted        map[string]bool
	globalFacts    []*Term
	baseAssumes    int      // number of leading path assumptions that come from the precondition
	unmodelled     []string // calls / values the engine had to treat as opaque (reported with failures)
	paths          int
	loops          map[*ssa.BasicBlock]int // header -> ordinal
	loopBody       map[*ssa.BasicBlock]map[*ssa.BasicBlock]bool
	counters       map[string]int
	siteNames      map[ssa.Instruction]map[string]string
	inlineDepth    int
	retHook        func(p *Path, results []*Term) // set while inlining
	globalsAssumed map[string]bool
	covers         []*Query
}

type undecidedErr string

func (u *Unit) fail(f string, a ...interface{}) {
	panic(undecidedErr(fmt.Sprintf(f, a...)))
}

var thePkg *types.Package

func fnDisplay(fn *ssa.Function) string {
	s := fn.RelString(thePkg)
	s = strings.NewReplacer("(*", "", "(", "", ")", "").Replace(s)
	return s
}

func fnKey(fn *ssa.Function) string { return fn.RelString(thePkg) }

func (u *Unit) ob(name, kind string, props []string, src string) *Obligation {
	full := u.name + "#" + name
	if o, ok := u.obs[full]; ok {
		return o
	}
	o := &Obligation{Name: full, Kind: kind, Props: props, Unit: u.name, Src: src}
	u.obs[full] = o
	*u.order = append(*u.order, full)
	return o
}

// siteName gives a stable ordinal-based name to a safety obligation at an instruction.
func (u *Unit) siteName(in ssa.Instruction, kind string) string {
	if m, ok := u.siteNames[in]; ok {
		if n, ok := m[kind]; ok {
			return n
		}
	} else {
		u.siteNames[in] = map[string]string{}
	}
	u.counters[kind]++
	n := fmt.Sprintf("safe.%s.%d", kind, u.counters[kind])
	u.siteNames[in][kind] = n
	return n
}

func (u *Unit) check(p *Path, o *Obligation, goal *Term) {
	if goal.IsTrue() {
		// still record that the obligation exists and holds trivially
		o.Queries = append(o.Queries, &Query{Ob: o, Goal: goal, Result: "unsat", Solver: "syntactic", Path: pathDesc(p), Cx: u.cx})
		return
	}
	q := &Query{Ob: o, Assumes: append([]*Term(nil), p.assumes...), Goal: goal, Path: pathDesc(p), Cx: u.cx, Vars: u.replayVars(p), Unfold: o.Unfold}
	o.Queries = append(o.Queries, q)
}

func pathDesc(p *Path) string {
	var b strings.Builder
	for i, t := range p.trace {
		if i > 0 {
			b.WriteByte('.')
		}
		fmt.Fprint(&b, t)
	}
	return b.String()
}

func (u *Unit) replayVars(p *Path) map[string]*Term {
	m := map[string]*Term{}
	for k, v := range u.params {
		m[k] = v
	}
	return m
}

// ---- values ----

func (u *Unit) val(p *Path, v ssa.Value) *Term {
	if t, ok := p.vals[v]; ok {
		return t
	}
	switch x := v.(type) {
	case *ssa.Const:
		return u.constant(x)
	case *ssa.Function:
		return u.cx.Named("fn_"+mangle(x.String()), SInt).WithT(x.Type())
	case *ssa.Global:
		u.fail("address of global %s used as a value", x.Name())
	case *ssa.Builtin:
		u.fail("builtin %s used as a value", x.Name())
	}
	if _, ok := p.addrs[v]; ok {
		u.fail("address value %s used as a first-class value", v.Name())
	}
	u.fail("no symbolic value for %s (%T)", v.Name(), v)
	return nil
}

func (u *Unit) constant(c *ssa.Const) *Term {
	enc := u.v.enc
	T := c.Type()
	s := enc.SortOf(T)
	if c.Value == nil {
		return enc.Zero(s).WithT(T)
	}
	switch c.Value.Kind() {
	case constant.Bool:
		return BoolLit(constant.BoolVal(c.Value)).WithT(T)
	case constant.String:
		return StrLit(constant.StringVal(c.Value)).WithT(T)
	case constant.Int:
		if s == SInt {
			n, ok := constant.Int64Val(c.Value)
			if !ok {
				un, _ := constant.Uint64Val(c.Value)
				return (&Term{Op: "#int", Sort: SInt, Lit: fmt.Sprint(un)}).WithT(T)
			}
			return IntLit(n).WithT(T)
		}
	}
	// float / complex literals: uninterpreted constants
	name := "lit_" + mangle(c.Value.ExactString())
	enc.declFun(name, nil, s)
	return V(name, s).WithT(T)
}

// ---- addresses ----

func (u *Unit) addrOf(p *Path, v ssa.Value) *Addr {
	if a, ok := p.addrs[v]; ok {
		return a
	}
	enc := u.v.enc
	switch x := v.(type) {
	case *ssa.Global:
		return &Addr{Kind: "global", Glob: x, T: x.Type().(*types.Pointer).Elem()}
	}
	// a first-class pointer value
	t := u.val(p, v)
	pt, ok := v.Type().Underlying().(*types.Pointer)
	if !ok {
		u.fail("not a pointer: %s", v.Name())
	}
	if _, isStruct := pt.Elem().Underlying().(*types.Struct); isStruct {
		return &Addr{Kind: "struct", Base: t, T: pt.Elem()}
	}
	if _, isArr := pt.Elem().Underlying().(*types.Array); isArr {
		return &Addr{Kind: "array", Base: t, T: pt.Elem()}
	}
	return &Addr{Kind: "deref", Base: t, Comp: enc.derefComp(pt.Elem()).Name, T: pt.Elem()}
}

func (u *Unit) requireNonNil(p *Path, in ssa.Instruction, ptr *Term, what string) {
	if ptr.IsLit() {
		if ptr.Lit == "0" {
			o := u.ob(u.siteName(in, "nil"), "safe", nil, what)
			u.check(p, o, tFalse)
		}
		return
	}
	k := ptr.String()
	if p.knownNN[k] {
		return
	}
	p.knownNN[k] = true
	o := u.ob(u.siteName(in, "nil"), "safe", nil, what)
	g := Neq(ptr, IntLit(0))
	u.check(p, o, g)
	p.assume(g)
}

func (u *Unit) load(p *Path, a *Addr) *Term {
	enc := u.v.enc
	var t *Term
	switch a.Kind {
	case "field":
		t = Select(p.st.Get(u.cx, a.Comp), a.Base)
	case "deref":
		t = Select(p.st.Get(u.cx, a.Comp), a.Base)
	case "cell":
		t = Select(Select(p.st.Get(u.cx, a.Comp), a.Arr), a.Idx)
	case "local":
		t = p.locals[a.Local]
		if t == nil {
			u.fail("load from uninitialised local %s", a.Local.Name())
		}
	case "struct":
		// load of a whole heap struct: rebuild the value from its fields
		su := a.T.Underlying().(*types.Struct)
		var args []*Term
		for i := 0; i < su.NumFields(); i++ {
			args = append(args, Select(p.st.Get(u.cx, enc.fieldComp(a.T, i).Name), a.Base))
		}
		t = enc.Mk("mk_"+enc.structName(a.T), args...)
	case "global":
		return u.v.globals.load(u, p, a.Glob)
	default:
		u.fail("load from %s address", a.Kind)
	}
	T := a.T
	for _, st := range a.Path {
		t = enc.Sel(st.sel, t)
		T = st.T
	}
	t = t.WithT(T)
	u.assumeWF(p, t, T)
	return t
}

// assumeWF adds the encoding invariants of a freshly read value: references are allocated.
func (u *Unit) assumeWF(p *Path, t *Term, T types.Type) {
	if t.IsLit() || T == nil {
		return
	}
	enc := u.v.enc
	alloc := p.st.Get(u.cx, "alloc")
	switch ut := T.Underlying().(type) {
	case *types.Interface:
		// references held in interface values (io.Writer, ...) are allocated too
		if t.Sort == SInt && ut.NumMethods() > 0 && !types.Identical(T, errType) {
			p.assume(And(Ge(t, IntLit(0)), Le(t, alloc)))
		}
	case *types.Pointer, *types.Map:
		p.assume(And(Ge(t, IntLit(0)), Le(t, alloc)))
	case *types.Slice:
		if t.Sort == "Slice" && t.Op != "mk_Slice" {
			p.assume(And(Ge(enc.Sel("sl_arr", t), IntLit(0)), Le(enc.Sel("sl_arr", t), alloc),
				Eq(enc.Sel("sl_off", t), IntLit(0)), Ge(enc.Sel("sl_len", t), IntLit(0)), Le(enc.Sel("sl_len", t), enc.Sel("sl_cap", t))))
		}
	}
}

func (u *Unit) store(p *Path, a *Addr, v *Term) {
	enc := u.v.enc
	if len(a.Path) > 0 {
		// read-modify-write of the enclosing value
		base := *a
		base.Path = nil
		old := u.loadRaw(p, &base)
		v = u.updatePath(old, a.T, a.Path, v)
		a = &base
	}
	switch a.Kind {
	case "field", "deref":
		c := p.st.Get(u.cx, a.Comp)
		p.st.comps[a.Comp] = Store(c, a.Base, v)
	case "cell":
		c := p.st.Get(u.cx, a.Comp)
		p.st.comps[a.Comp] = Store(c, a.Arr, Store(Select(c, a.Arr), a.Idx, v))
	case "local":
		p.locals[a.Local] = v
	case "struct":
		su := a.T.Underlying().(*types.Struct)
		for i := 0; i < su.NumFields(); i++ {
			cn := enc.fieldComp(a.T, i).Name
			fv := enc.Sel("sel_"+enc.structName(a.T)+"_"+su.Field(i).Name(), v)
			p.st.comps[cn] = Store(p.st.Get(u.cx, cn), a.Base, fv)
		}
	case "global":
		u.fail("store to package-level variable %s", a.Glob.Name())
	default:
		u.fail("store to %s address", a.Kind)
	}
}

func (u *Unit) loadRaw(p *Path, a *Addr) *Term {
	switch a.Kind {
	case "local":
		if t := p.locals[a.Local]; t != nil {
			return t
		}
		return u.v.enc.Zero(u.v.enc.SortOf(a.T))
	}
	return u.load(p, a)
}

func (u *Unit) updatePath(old *Term, T types.Type, path []fieldStep, v *Term) *Term {
	enc := u.v.enc
	if len(path) == 0 {
		return v
	}
	su := T.Underlying().(*types.Struct)
	var args []*Term
	for i := 0; i < su.NumFields(); i++ {
		sel := "sel_" + enc.structName(T) + "_" + su.Field(i).Name()
		cur := enc.Sel(sel, old)
		if sel == path[0].sel {
			cur = u.updatePath(cur, su.Field(i).Type(), path[1:], v)
		}
		args = append(args, cur)
	}
	return enc.Mk("mk_"+enc.structName(T), args...)
}

// ---- fresh allocation ----

func (u *Unit) freshRef(p *Path, hint string) *Term {
	alloc := p.st.Get(u.cx, "alloc")
	r := u.cx.Fresh(hint, SInt)
	p.assume(Eq(r, Add(alloc, IntLit(1))))
	p.st.comps["alloc"] = r
	if u.cx.freshRefs == nil {
		u.cx.freshRefs = map[string]bool{}
	}
	u.cx.freshRefs[r.String()] = true
	p.knownNN[r.String()] = true
	p.assume(Gt(r, IntLit(0)))
	return r
}

// ---- instruction execution ----

func (u *Unit) execFrom(p *Path, b *ssa.BasicBlock, pred *ssa.BasicBlock, start int, resumed bool) {
	if !resumed {
		u.paths++
		if u.paths > u.v.maxPaths {
			u.fail("more than %d path segments", u.v.maxPaths)
		}
		p.trace = append(p.trace, b.Index)
		// leaving a loop: exit assertions
		if pred != nil {
			for _, h := range sortedBlocks(u.loops) {
				ord := u.loops[h]
				if !(u.loopBody[h][pred] && !u.loopBody[h][b]) {
					continue
				}
				var env *Env
				for _, c := range u.bc.own.Invs[ord] {
					if !c.AtExit {
						continue
					}
					if env == nil {
						env = u.invEnv(p, h)
					}
					g, err := env.EvalBool(c.Expr)
					if err != nil {
						u.fail("loop %d exit assertion %s: %v", ord, c.Label, err)
					}
					o := u.ob(fmt.Sprintf("inv%d.%s.exit", ord, c.Label), "inv", c.Props, c.Src)
					o.Unfold = c.Unfold
					u.check(p, o, g)
					p.assume(g)
				}
			}
		}
		// leaving a loop: forget its local invariants
		if pred != nil && len(p.localFacts) > 0 {
			for h, ord := range u.loops {
				if facts := p.localFacts[ord]; len(facts) > 0 && u.loopBody[h][pred] && !u.loopBody[h][b] {
					drop := map[*Term]bool{}
					for _, f := range facts {
						drop[f] = true
					}
					var kept []*Term
					for _, a := range p.assumes {
						if !drop[a] {
							kept = append(kept, a)
						}
					}
					p.assumes = kept
					delete(p.localFacts, ord)
				}
			}
		}
		if ord, isHead := u.loops[b]; isHead {
			back := pred != nil && b.Dominates(pred)
			if !u.atLoopHead(p, b, pred, ord, back) {
				return
			}
		} else {
			u.evalPhis(p, b, pred, nil)
		}
	}
	for i := start; i < len(b.Instrs); i++ {
		in := b.Instrs[i]
		switch x := in.(type) {
		case *ssa.Phi:
			continue
		case *ssa.If:
			c := u.val(p, x.Cond)
			if c.IsTrue() {
				u.execFrom(p, b.Succs[0], b, 0, false)
			} else if c.IsFalse() {
				u.execFrom(p, b.Succs[1], b, 0, false)
			} else {
				q := p.clone()
				q.assume(Not(c))
				p.assume(c)
				u.execFrom(p, b.Succs[0], b, 0, false)
				u.execFrom(q, b.Succs[1], b, 0, false)
			}
			return
		case *ssa.Jump:
			u.execFrom(p, b.Succs[0], b, 0, false)
			return
		case *ssa.Return:
			var rs []*Term
			for _, r := range x.Results {
				rs = append(rs, u.val(p, r))
			}
			if u.retHook != nil {
				u.retHook(p, rs)
			} else {
				u.atReturn(p, rs)
			}
			return
		case *ssa.Panic:
			if u.retHook != nil {
				u.inlinedPanic(p, x)
			} else {
				u.atPanic(p, x)
			}
			return
		default:
			u.exec(p, in)
			forks := u.pendingFork
			u.pendingFork = nil
			for _, f := range forks {
				u.execFrom(f.p, b, pred, i+1, true)
			}
			if u.pathDead {
				u.pathDead = false
				return
			}
		}
	}
}

func (u *Unit) evalPhis(p *Path, b, pred *ssa.BasicBlock, override map[*ssa.Phi]*Term) {
	if pred == nil {
		return
	}
	idx := -1
	for i, pp := range b.Preds {
		if pp == pred {
			idx = i
			break
		}
	}
	var phis []*ssa.Phi
	var vals []*Term
	for _, in := range b.Instrs {
		phi, ok := in.(*ssa.Phi)
		if !ok {
			break
		}
		phis = append(phis, phi)
		if override != nil {
			vals = append(vals, override[phi])
		} else {
			vals = append(vals, u.val(p, phi.Edges[idx]).WithT(phi.Type()))
		}
	}
	for i, phi := range phis {
		p.vals[phi] = vals[i]
		if phi.Comment != "" {
			p.names[phi.Comment] = phi
			delete(p.nameAddr, phi.Comment)
		}
	}
}

func (u *Unit) exec(p *Path, in ssa.Instruction) {
	enc := u.v.enc
	switch x := in.(type) {
	case *ssa.DebugRef:
		if id, ok := x.Expr.(interface{ String() string }); ok {
			_ = id
		}
		if obj := x.Object(); obj != nil {
			if tv, isVar := obj.(*types.Var); isVar && !tv.IsField() { // a selector x.f names a field, not a variable
				if os.Getenv("JVC_DBGREF") == obj.Name() {
					fmt.Printf("DebugRef %s := %v (%T) addr=%v in block %d of %s\n", obj.Name(), x.X, x.X, x.IsAddr, x.Block().Index, x.Parent().Name())
				}
				val := x.X
				// go/ssa places the DebugRef of a defining occurrence `x := e` before the (lifted) store,
				// so it carries the zero value; the value of e is in the DebugRef just before it.
				if c, isConst := x.X.(*ssa.Const); isConst && !x.IsAddr && x.Expr.Pos() == obj.Pos() && (c.Value == nil || c.IsNil()) {
					blk := x.Block()
					for i, in := range blk.Instrs {
						if in != ssa.Instruction(x) {
							continue
						}
						// the initialiser is evaluated right after; its value is named by the next
						// expression DebugRef of the same type (names are resolved lazily)
						for j := i + 1; j < len(blk.Instrs); j++ {
							pd, ok := blk.Instrs[j].(*ssa.DebugRef)
							if !ok {
								continue
							}
							if pd.Object() != nil {
								if pd.Object() != obj {
									continue
								}
								break
							}
							if pd.Expr.Pos() > x.Expr.Pos() && types.Identical(pd.X.Type(), x.X.Type()) {
								val = pd.X
								break
							}
						}
					}
				}
				p.names[obj.Name()] = val
				if x.IsAddr {
					p.nameAddr[obj.Name()] = true
				} else {
					delete(p.nameAddr, obj.Name())
				}
			}
		}
	case *ssa.Alloc:
		u.execAlloc(p, x)
	case *ssa.FieldAddr:
		st := x.X.Type().Underlying().(*types.Pointer).Elem()
		su := st.Underlying().(*types.Struct)
		ft := su.Field(x.Field).Type()
		if base, ok := p.addrs[x.X]; ok && (base.Kind == "local" || base.Kind == "cell" || base.Kind == "field" || base.Kind == "deref") {
			na := *base
			na.Path = append(append([]fieldStep(nil), base.Path...), fieldStep{"sel_" + enc.structName(st) + "_" + su.Field(x.Field).Name(), ft})
			p.addrs[x] = &na
			return
		}
		ptr := u.val(p, x.X)
		u.requireNonNil(p, x, ptr, "field access through nil pointer")
		p.addrs[x] = &Addr{Kind: "field", Base: ptr, Comp: enc.fieldComp(st, x.Field).Name, T: ft}
	case *ssa.IndexAddr:
		idx := u.val(p, x.Index)
		switch ut := x.X.Type().Underlying().(type) {
		case *types.Slice:
			sl := u.val(p, x.X)
			o := u.ob(u.siteName(x, "index"), "safe", nil, "index out of range")
			u.check(p, o, And(Ge(idx, IntLit(0)), Lt(idx, enc.Sel("sl_len", sl))))
			p.addrs[x] = &Addr{Kind: "cell", Comp: enc.cellsComp(enc.SortOf(ut.Elem())).Name, Arr: enc.Sel("sl_arr", sl), Idx: idx, T: ut.Elem()}
		case *types.Pointer:
			at := ut.Elem().Underlying().(*types.Array)
			arr := u.val(p, x.X)
			o := u.ob(u.siteName(x, "index"), "safe", nil, "index out of range")
			u.check(p, o, And(Ge(idx, IntLit(0)), Lt(idx, IntLit(at.Len()))))
			p.addrs[x] = &Addr{Kind: "cell", Comp: enc.cellsComp(enc.SortOf(at.Elem())).Name, Arr: arr, Idx: idx, T: at.Elem()}
		default:
			u.fail("IndexAddr on %s", x.X.Type())
		}
	case *ssa.Store:
		a := u.addrOf(p, x.Addr)
		if a.Kind == "deref" || a.Kind == "struct" {
			u.requireNonNil(p, x, a.Base, "store through nil pointer")
		}
		u.store(p, a, u.val(p, x.Val))
	case *ssa.UnOp:
		switch x.Op {
		case token.MUL:
			a := u.addrOf(p, x.X)
			if a.Kind == "deref" || a.Kind == "struct" {
				u.requireNonNil(p, x, a.Base, "load through nil pointer")
			}
			p.vals[x] = u.load(p, a).WithT(x.Type())
		case token.NOT:
			p.vals[x] = Not(u.val(p, x.X)).WithT(x.Type())
		case token.SUB:
			p.vals[x] = Sub(IntLit(0), u.val(p, x.X)).WithT(x.Type())
		default:
			u.fail("unary operator %s", x.Op)
		}
	case *ssa.BinOp:
		p.vals[x] = u.binop(x, u.val(p, x.X), u.val(p, x.Y)).WithT(x.Type())
	case *ssa.Convert:
		v := u.val(p, x.X)
		from, to := enc.SortOf(x.X.Type()), enc.SortOf(x.Type())
		if from != to {
			u.fail("conversion %s -> %s", x.X.Type(), x.Type())
		}
		// integer narrowing (or a change of signedness) wraps: the result is the source value modulo 2^bits,
		// taken in the target's range. Widening conversions are the identity.
		if lo, bits, ok := intRange(x.Type()); ok {
			if slo, sbits, sok := intRange(x.X.Type()); sok && !(slo <= 0 && lo <= slo && (sbits < bits || (sbits == bits && (slo < 0) == (lo < 0)))) {
				v = wrapInt(v, lo < 0, bits)
			}
		}
		p.vals[x] = v.WithT(x.Type())
	case *ssa.ChangeType:
		p.vals[x] = u.val(p, x.X).WithT(x.Type())
	case *ssa.MakeInterface:
		p.vals[x] = u.box(p, u.val(p, x.X), x.X.Type(), x.Type())
	case *ssa.ChangeInterface:
		v := u.val(p, x.X)
		from, to := enc.SortOf(x.X.Type()), enc.SortOf(x.Type())
		switch {
		case from == to:
			p.vals[x] = v.WithT(x.Type())
		case to == "Any" && from == SInt:
			p.vals[x] = Ite(Eq(v, IntLit(0)), V("A_nil", "Any"), enc.Mk("A_other", v)).WithT(x.Type())
		case to == "Any" && from == "Code":
			enc.declFun("codeAsAny", []string{"Code"}, "Any")
			p.vals[x] = App("codeAsAny", "Any", v).WithT(x.Type())
		default:
			u.fail("interface conversion %s -> %s", x.X.Type(), x.Type())
		}
	case *ssa.TypeAssert:
		u.typeAssert(p, x)
	case *ssa.Extract:
		tp, ok := p.tuples[x.Tuple]
		if !ok {
			u.fail("extract from unknown tuple %s", x.Tuple.Name())
		}
		p.vals[x] = tp[x.Index].WithT(x.Type())
	case *ssa.Field:
		v := u.val(p, x.X)
		su := x.X.Type().Underlying().(*types.Struct)
		p.vals[x] = enc.Sel("sel_"+enc.structName(x.X.Type())+"_"+su.Field(x.Field).Name(), v).WithT(x.Type())
		u.assumeWF(p, p.vals[x], x.Type())
	case *ssa.MakeMap:
		mt := x.Type().Underlying().(*types.Map)
		c := enc.mapComp(mt)
		r := u.freshRef(p, "map")
		p.st.comps[c.Name] = Store(p.st.Get(u.cx, c.Name), r, enc.EmptyMap(c.Elem))
		p.vals[x] = r.WithT(x.Type())
	case *ssa.MapUpdate:
		mt := x.Map.Type().Underlying().(*types.Map)
		c := enc.mapComp(mt)
		m := u.val(p, x.Map)
		u.requireNonNil(p, x, m, "assignment to entry in nil map")
		k, v := u.val(p, x.Key), u.val(p, x.Value)
		M := p.st.Get(u.cx, c.Name)
		mv := Select(M, m)
		nv := enc.Mk("mk_"+c.Elem, Store(enc.MapDom(mv), k, tTrue), Store(enc.MapVal(mv), k, v),
			Ite(Select(enc.MapDom(mv), k), enc.MapCard(mv), Add(enc.MapCard(mv), IntLit(1))))
		p.st.comps[c.Name] = Store(M, m, nv)
	case *ssa.Lookup:
		u.lookup(p, x)
	case *ssa.Range:
		u.execRange(p, x)
	case *ssa.Next:
		u.execNext(p, x)
	case *ssa.Slice:
		u.execSlice(p, x)
	case *ssa.MakeSlice:
		// make([]T, len, cap): a fresh backing array whose first len cells hold the zero value
		st := x.Type().Underlying().(*types.Slice)
		ln, cp := u.val(p, x.Len), u.val(p, x.Cap)
		o := u.ob(u.siteName(x, "makeslice"), "safe", nil, "make([]T, len, cap) with 0 <= len <= cap")
		ok := And(Ge(ln, IntLit(0)), Le(ln, cp))
		u.check(p, o, ok)
		p.assume(ok)
		c := enc.cellsComp(enc.SortOf(st.Elem()))
		r := u.freshRef(p, "make")
		u.cx.n++
		j := V(fmt.Sprintf("q_j_%d", u.cx.n), SInt)
		cells := p.st.Get(u.cx, c.Name)
		na := u.cx.Fresh("madearr", ArrSort(SInt, c.Elem))
		if !(ln.IsLit() && ln.Lit == "0") {
			p.assume(Forall([]*Term{j}, Imp(And(Ge(j, IntLit(0)), Lt(j, ln)), Eq(Select(na, j), enc.Zero(c.Elem))), []*Term{Select(na, j)}))
		}
		p.st.comps[c.Name] = Store(cells, r, na)
		p.vals[x] = enc.Mk("mk_Slice", r, IntLit(0), ln, cp).WithT(x.Type())
	case *ssa.Call:
		u.execCall(p, x)
	case *ssa.Index:
		if b, ok := x.X.Type().Underlying().(*types.Basic); ok && b.Info()&types.IsString != 0 {
			u.stringIndex(p, x, x.X, x.Index)
		} else {
			u.fail("index of array value")
		}
	default:
		u.fail("unsupported instruction %T at %s", in, u.v.enc.prog.Fset.Position(in.Pos()))
	}
}

func (u *Unit) execAlloc(p *Path, x *ssa.Alloc) {
	enc := u.v.enc
	el := x.Type().Underlying().(*types.Pointer).Elem()
	if n, ok := el.(*types.Named); ok && n.Obj().Pkg() != nil && n.Obj().Pkg().Path() == "strings" && n.Obj().Name() == "Builder" {
		// a strings.Builder variable is represented by the text it has accumulated (methods: builderCall)
		p.locals[x] = StrLit("")
		p.addrs[x] = &Addr{Kind: "local", Local: x, T: types.Typ[types.String]}
		return
	}
	if !x.Heap {
		if _, isArr := el.Underlying().(*types.Array); !isArr {
			p.locals[x] = enc.Zero(enc.SortOf(el))
			p.addrs[x] = &Addr{Kind: "local", Local: x, T: el}
			return
		}
	}
	r := u.freshRef(p, "new_"+x.Comment)
	switch ut := el.Underlying().(type) {
	case *types.Struct:
		if n, isNamed := el.(*types.Named); !isNamed || n.Obj().Pkg() == enc.tpkg {
			for i := 0; i < ut.NumFields(); i++ {
				c := enc.fieldComp(el, i)
				p.st.comps[c.Name] = Store(p.st.Get(u.cx, c.Name), r, enc.Zero(c.Elem))
			}
		} else if n.Obj().Pkg().Path() == "bytes" && n.Obj().Name() == "Buffer" {
			p.st.comps["written"] = Store(p.st.Get(u.cx, "written"), r, StrLit(""))
			p.st.comps["nwrites"] = Store(p.st.Get(u.cx, "nwrites"), r, IntLit(0))
			p.st.comps["failed"] = Store(p.st.Get(u.cx, "failed"), r, tFalse)
			p.st.comps["isbuf"] = Store(p.st.Get(u.cx, "isbuf"), r, tTrue)
		} else {
			u.fail("allocation of external struct %s", el)
		}
	case *types.Array:
		c := enc.cellsComp(enc.SortOf(ut.Elem()))
		_, inner, _ := arrParts(c.Sort)
		p.st.comps[c.Name] = Store(p.st.Get(u.cx, c.Name), r, ConstArray(inner, enc.Zero(c.Elem)))
	default:
		c := enc.derefComp(el)
		p.st.comps[c.Name] = Store(p.st.Get(u.cx, c.Name), r, enc.Zero(c.Elem))
	}
	p.vals[x] = r.WithT(x.Type())
}

func (u *Unit) binop(x *ssa.BinOp, a, b *Term) *Term {
	if a.Sort != b.Sort {
		u.fail("binary operator %s on sorts %s and %s", x.Op, a.Sort, b.Sort)
	}
	if a.Sort != SInt && a.Sort != SStr && a.Sort != SBool && x.Op != token.EQL && x.Op != token.NEQ || strings.HasPrefix(a.Sort, "F") && len(a.Sort) == 3 || strings.HasPrefix(a.Sort, "C") && (a.Sort == "C64" || a.Sort == "C128") {
		// floating-point and complex arithmetic is not interpreted: a function of the operands, nothing more
		return u.opaqueOp(x, a, b)
	}
	switch x.Op {
	case token.QUO, token.REM, token.AND, token.OR, token.XOR, token.SHL, token.SHR, token.AND_NOT:
		return u.opaqueOp(x, a, b)
	case token.ADD:
		if a.Sort == SStr {
			return Concat(a, b)
		}
		return Add(a, b)
	case token.SUB:
		return Sub(a, b)
	case token.MUL:
		return App("*", SInt, a, b)
	case token.EQL:
		return Eq(a, b)
	case token.NEQ:
		return Neq(a, b)
	case token.LSS, token.LEQ, token.GTR, token.GEQ:
		op := map[token.Token]string{token.LSS: "<", token.LEQ: "<=", token.GTR: ">", token.GEQ: ">="}[x.Op]
		if a.Sort == SStr {
			u.fail("string ordering")
		}
		return cmp(op, a, b)
	case token.LAND:
		return And(a, b)
	case token.LOR:
		return Or(a, b)
	}
	u.fail("binary operator %s", x.Op)
	return nil
}

// box converts a concrete value to an interface value.
func (u *Unit) box(p *Path, v *Term, from, to types.Type) *Term {
	enc := u.v.enc
	switch enc.SortOf(to) {
	case "Code":
		cn := enc.CodeCtor(from)
		if cn == "" {
			r := u.cx.Fresh("othercode", SInt)
			return enc.Mk("C_other", r).WithT(to)
		}
		return enc.Mk(cn, v).WithT(to)
	case "Any":
		if b, ok := from.Underlying().(*types.Basic); ok {
			if _, named := from.(*types.Named); !named {
				for _, k := range anyKinds {
					if k.kind == b.Kind() {
						return enc.Mk("A_"+k.name, v).WithT(to)
					}
				}
			}
		}
		if enc.SortOf(from) == SInt && types.IsInterface(from) {
			return Ite(Eq(v, IntLit(0)), V("A_nil", "Any"), enc.Mk("A_other", v)).WithT(to)
		}
		r := u.cx.Fresh("boxed", SInt)
		return enc.Mk("A_other", r).WithT(to)
	case SInt:
		// error, io.Writer, ...: the reference itself
		if v.Sort == SInt {
			return v.WithT(to)
		}
		r := u.cx.Fresh("iface", SInt)
		p.assume(Gt(r, IntLit(0)))
		return r.WithT(to)
	}
	u.fail("MakeInterface %s -> %s", from, to)
	return nil
}

func (u *Unit) typeAssert(p *Path, x *ssa.TypeAssert) {
	enc := u.v.enc
	v := u.val(p, x.X)
	var ok, val *Term
	switch v.Sort {
	case "Code":
		cn := enc.CodeCtor(x.AssertedType)
		if cn == "" {
			u.fail("type assertion from Code to %s", x.AssertedType)
		}
		ok = enc.Is(cn, v)
		val = enc.Sel(cn+"_v", v)
	case "Any":
		b, isBasic := x.AssertedType.Underlying().(*types.Basic)
		if _, named := x.AssertedType.(*types.Named); !isBasic || named {
			u.fail("type assertion from interface{} to %s", x.AssertedType)
		}
		for _, k := range anyKinds {
			if k.kind == b.Kind() {
				ok = enc.Is("A_"+k.name, v)
				val = enc.Sel("A_"+k.name+"_v", v)
			}
		}
		if ok == nil {
			u.fail("type assertion to %s", x.AssertedType)
		}
	default:
		u.fail("type assertion on sort %s", v.Sort)
	}
	if x.CommaOk {
		zero := enc.Zero(val.Sort)
		res := Ite(ok, val, zero).WithT(x.AssertedType)
		p.tuples[x] = []*Term{res, ok}
		// references inside are allocated
		u.assumeWF(p, res, x.AssertedType)
		return
	}
	o := u.ob(u.siteName(x, "typeassert"), "safe", nil, "type assertion without comma-ok may panic")
	u.check(p, o, ok)
	p.assume(ok)
	p.vals[x] = val.WithT(x.AssertedType)
	u.assumeWF(p, p.vals[x], x.AssertedType)
}

func (u *Unit) mapValueAt(p *Path, m *Term, mt *types.Map) (*Term, *Comp) {
	enc := u.v.enc
	c := enc.mapComp(mt)
	mv := Select(p.st.Get(u.cx, c.Name), m)
	// encoding invariant: reference 0 is the nil map, which is empty
	if !m.IsLit() || m.Lit == "0" {
		p.assume(Imp(Eq(m, IntLit(0)), Eq(mv, enc.EmptyMap(c.Elem))))
	}
	p.assume(App("finite_"+c.Elem, SBool, mv))
	return mv, c
}

func (u *Unit) lookup(p *Path, x *ssa.Lookup) {
	enc := u.v.enc
	mt, ok := x.X.Type().Underlying().(*types.Map)
	if !ok {
		u.stringIndex(p, x, x.X, x.Index)
		return
	}
	m := u.val(p, x.X)
	k := u.val(p, x.Index)
	mv, c := u.mapValueAt(p, m, mt)
	val := Select(enc.MapVal(mv), k)
	has := Select(enc.MapDom(mv), k)
	// map well-formedness instance: absent keys read as the zero value
	_, vs, _ := arrParts(enc.dts[c.Elem].Ctors[0].Fields[1].Sort)
	p.assume(Imp(Not(has), Eq(val, enc.Zero(vs))))
	val = val.WithT(mt.Elem())
	u.assumeWF(p, val, mt.Elem())
	if x.CommaOk {
		p.tuples[x] = []*Term{val, has}
	} else {
		p.vals[x] = val
	}
}

// enumAxioms: ks enumerates exactly the keys of mv, without repetition.
func (u *Unit) enumAxioms(mv *Term, ks, idx, n *Term) []*Term {
	return u.enumAxiomsP(mv, ks, idx, n, true)
}

// enumAxiomsP: eager=false omits the trigger on domain membership (used for len(m), where the
// enumeration only witnesses the cardinality), which otherwise feeds other enumerations' triggers.
func (u *Unit) enumAxiomsP(mv *Term, ks, idx, n *Term, eager bool) []*Term {
	enc := u.v.enc
	ksK, _, _ := arrParts(idx.Sort)
	u.cx.n++
	i := V(fmt.Sprintf("q_i_%d", u.cx.n), SInt)
	k := V(fmt.Sprintf("q_k_%d", u.cx.n), ksK)
	dom := enc.MapDom(mv)
	a1 := Forall([]*Term{i}, Imp(And(Ge(i, IntLit(0)), Lt(i, n)),
		And(Select(dom, Select(ks, i)), Eq(Select(idx, Select(ks, i)), i))), []*Term{Select(ks, i)})
	pats := [][]*Term{{Select(idx, k)}}
	if eager {
		pats = append(pats, []*Term{Select(dom, k)})
	}
	a2 := Forall([]*Term{k}, Imp(Select(dom, k),
		And(Ge(Select(idx, k), IntLit(0)), Lt(Select(idx, k), n), Eq(Select(ks, Select(idx, k)), k))), pats...)
	return []*Term{Eq(n, enc.MapCard(mv)), Ge(n, IntLit(0)), a1, a2}
}

func (u *Unit) execRange(p *Path, x *ssa.Range) {
	enc := u.v.enc
	mt, ok := x.X.Type().Underlying().(*types.Map)
	if !ok {
		u.fail("range over %s", x.X.Type())
	}
	m := u.val(p, x.X)
	mv, c := u.mapValueAt(p, m, mt)
	ksort := enc.SortOf(mt.Key())
	it := &IterState{ks: u.cx.Fresh("ks", ArrSort(SInt, ksort)), idx: u.cx.Fresh("ksidx", ArrSort(ksort, SInt)),
		n: u.cx.Fresh("n", SInt), i: IntLit(0), mv: mv, ref: m, comp: c.Name, mt: mt}
	// freeze the map value under a name to keep terms small
	frozen := u.cx.Fresh("rangedmap", mv.Sort)
	p.assume(Eq(frozen, mv))
	it.mv = frozen
	for _, a := range u.enumAxioms(frozen, it.ks, it.idx, it.n) {
		p.assume(a)
		it.facts = append(it.facts, a)
	}
	it.facts = append(it.facts, App("finite_"+c.Elem, SBool, frozen))
	p.iters[x] = it
}

func (u *Unit) execNext(p *Path, x *ssa.Next) {
	enc := u.v.enc
	if x.IsString {
		u.fail("range over string")
	}
	it := p.iters[x.Iter]
	if it == nil {
		u.fail("next on unknown iterator")
	}
	// the ranged map must not have been modified since the range started (we only model that case)
	cur := Select(p.st.Get(u.cx, it.comp), it.ref)
	if !same(cur, it.mv) {
		o := u.ob(u.siteName(x, "range-stable"), "safe", nil, "the ranged map is not modified during iteration (modelling restriction)")
		u.check(p, o, Eq(cur, it.mv))
	}
	ok := Lt(it.i, it.n)
	k := Select(it.ks, it.i).WithT(it.mt.Key())
	v := Select(enc.MapVal(it.mv), k).WithT(it.mt.Elem())
	p.tuples[x] = []*Term{ok, k, v}
	// bookkeeping: the iteration index advances when ok
	ni := u.cx.Fresh("iter", SInt)
	p.assume(Eq(ni, Ite(ok, Add(it.i, IntLit(1)), it.i)))
	it.prev = it.i
	it.i = ni
}

func (u *Unit) execSlice(p *Path, x *ssa.Slice) {
	enc := u.v.enc
	var lo, hi *Term
	if x.Low != nil {
		lo = u.val(p, x.Low)
	}
	if x.High != nil {
		hi = u.val(p, x.High)
	}
	if x.Max != nil {
		u.fail("3-index slice")
	}
	switch ut := x.X.Type().Underlying().(type) {
	case *types.Pointer: // pointer to array
		at := ut.Elem().Underlying().(*types.Array)
		arr := u.val(p, x.X)
		if lo != nil && !(lo.Op == "#int" && lo.Lit == "0") {
			u.fail("slice of an array with a non-zero lower bound is not modelled (slice offsets are assumed 0)")
		}
		ln := IntLit(at.Len())
		if hi != nil {
			o := u.ob(u.siteName(x, "slice"), "safe", nil, "slice bounds out of range")
			u.check(p, o, And(Ge(hi, IntLit(0)), Le(hi, IntLit(at.Len()))))
			ln = hi
		}
		p.vals[x] = enc.Mk("mk_Slice", arr, IntLit(0), ln, IntLit(at.Len())).WithT(x.Type())
	case *types.Basic: // string
		s := u.val(p, x.X)
		if lo == nil {
			lo = IntLit(0)
		}
		if hi == nil {
			hi = App("str.len", SInt, s)
		}
		o := u.ob(u.siteName(x, "slice"), "safe", nil, "slice bounds out of range")
		u.check(p, o, And(Ge(lo, IntLit(0)), Le(lo, hi), Le(hi, App("str.len", SInt, s))))
		p.vals[x] = App("str.substr", SStr, s, lo, Sub(hi, lo)).WithT(x.Type())
	case *types.Slice:
		sl := u.val(p, x.X)
		if sl.Sort == SStr {
			u.fail("slicing a byte slice")
		}
		if lo == nil {
			lo = IntLit(0)
		}
		if hi == nil {
			hi = enc.Sel("sl_len", sl)
		}
		o := u.ob(u.siteName(x, "slice"), "safe", nil, "slice bounds out of range")
		u.check(p, o, And(Ge(lo, IntLit(0)), Le(lo, hi), Le(hi, enc.Sel("sl_cap", sl))))
		if !(lo.Op == "#int" && lo.Lit == "0") {
			u.fail("re-slicing with a non-zero lower bound is not modelled (slice offsets are assumed 0)")
		}
		p.vals[x] = enc.Mk("mk_Slice", enc.Sel("sl_arr", sl), IntLit(0), hi, enc.Sel("sl_cap", sl)).WithT(x.Type())
	default:
		u.fail("slice of %s", x.X.Type())
	}
}

// ---- names visible to invariants ----

func (u *Unit) envVars(p *Path) map[string]*Term {
	vars := map[string]*Term{}
	for n, v := range p.names {
		if p.nameAddr[n] {
			if a, ok := p.addrs[v]; ok {
				if a.Kind == "local" && p.locals[a.Local] == nil {
					continue
				}
				func() {
					defer func() { recover() }()
					vars[n] = u.load(p, a)
				}()
			}
			continue
		}
		if t, ok := p.vals[v]; ok {
			vars[n] = t
		} else if c, ok := v.(*ssa.Const); ok {
			vars[n] = u.constant(c)
		}
	}
	for k, v := range u.params {
		if _, shadow := vars[k]; !shadow {
			vars[k] = v
		}
	}
	for k, v := range p.ghosts {
		vars[k] = v
	}
	return vars
}

func sortedBlocks(m map[*ssa.BasicBlock]int) []*ssa.BasicBlock {
	var bs []*ssa.BasicBlock
	for b := range m {
		bs = append(bs, b)
	}
	sort.Slice(bs, func(i, j int) bool { return bs[i].Index < bs[j].Index })
	return bs
}

// intRange gives, for an integer type, the sign of its lower bound (-1 signed, 0 unsigned) and its width
// on a 64-bit target (int, uint and uintptr are 64 bits wide).
func intRange(t types.Type) (lo int, bits int, ok bool) {
	b, isB := t.Underlying().(*types.Basic)
	if !isB || b.Info()&types.IsInteger == 0 {
		return 0, 0, false
	}
	switch b.Kind() {
	case types.Int8:
		return -1, 8, true
	case types.Int16:
		return -1, 16, true
	case types.Int32:
		return -1, 32, true
	case types.Int64, types.Int, types.UntypedInt, types.UntypedRune:
		return -1, 64, true
	case types.Uint8:
		return 0, 8, true
	case types.Uint16:
		return 0, 16, true
	case types.Uint32:
		return 0, 32, true
	case types.Uint64, types.Uint, types.Uintptr:
		return 0, 64, true
	}
	return 0, 0, false
}

// wrapInt is two's-complement truncation of a mathematical integer to the given width.
func wrapInt(v *Term, signed bool, bits int) *Term {
	pow := func(n int) *Term {
		z := new(big.Int).Lsh(big.NewInt(1), uint(n))
		return &Term{Op: "#int", Sort: SInt, Lit: z.String()}
	}
	if !signed {
		return App("mod", SInt, v, pow(bits))
	}
	half := pow(bits - 1)
	return App("-", SInt, App("mod", SInt, App("+", SInt, v, half), pow(bits)), half)
}

// stringIndex models s[i] on a string: the code of the i-th character (strings are sequences of bytes
// in this model), with the bounds check as an obligation.
func (u *Unit) stringIndex(p *Path, x ssa.Value, sv, iv ssa.Value) {
	str, idx := u.val(p, sv), u.val(p, iv)
	o := u.ob(u.siteName(x.(ssa.Instruction), "index"), "safe", nil, "string index out of range")
	inRange := And(Ge(idx, IntLit(0)), Lt(idx, App("str.len", SInt, str)))
	u.check(p, o, inRange)
	p.assume(inRange)
	b := App("str.to_code", SInt, App("str.at", SStr, str, idx))
	p.assume(And(Ge(b, IntLit(0)), Le(b, IntLit(255))))
	p.vals[x] = b.WithT(x.Type())
}

// opaqueOp: an operator the logic does not interpret is an uninterpreted function of its operands.
func (u *Unit) opaqueOp(x *ssa.BinOp, a, b *Term) *Term {
	ret := u.v.enc.SortOf(x.Type())
	name := fmt.Sprintf("op_%s_%s", map[token.Token]string{token.ADD: "add", token.SUB: "sub", token.MUL: "mul", token.QUO: "quo", token.REM: "rem",
		token.AND: "and", token.OR: "or", token.XOR: "xor", token.SHL: "shl", token.SHR: "shr", token.AND_NOT: "andnot", token.EQL: "eq", token.NEQ: "neq",
		token.LSS: "lt", token.LEQ: "le", token.GTR: "gt", token.GEQ: "ge"}[x.Op], a.Sort)
	u.v.enc.declFun(name, []string{a.Sort, b.Sort}, ret)
	u.noteUnmodelled("operator " + x.Op.String() + " on " + x.X.Type().String() + " is not interpreted")
	return App(name, ret, a, b)
}
