package main

import (
	"fmt"
	"strconv"
	"strings"
)

// Expr is the AST of the contract / spec expression language.
type Expr struct {
	Kind    string // ident int str bool nil unary binary cond call index slice field old quant let deref
	Op      string
	Name    string
	Val     string
	X, Y, Z *Expr
	Args    []*Expr
	Vars    []QVar // quant
	Pos     int
	Pats    [][]*Expr
}

type QVar struct{ Name, Type string }

type tok struct {
	kind string // id int str op eof
	s    string
	pos  int
}

func lex(src string) ([]tok, error) {
	var out []tok
	i := 0
	for i < len(src) {
		c := src[i]
		switch {
		case c == ' ' || c == '\t' || c == '\n' || c == '\r':
			i++
		case c == '"':
			j := i + 1
			for j < len(src) && src[j] != '"' {
				if src[j] == '\\' {
					j++
				}
				j++
			}
			if j >= len(src) {
				return nil, fmt.Errorf("unterminated string at %d", i)
			}
			s, err := strconv.Unquote(src[i : j+1])
			if err != nil {
				return nil, fmt.Errorf("bad string %s: %v", src[i:j+1], err)
			}
			out = append(out, tok{"str", s, i})
			i = j + 1
		case c == '`':
			j := strings.IndexByte(src[i+1:], '`')
			if j < 0 {
				return nil, fmt.Errorf("unterminated raw string at %d", i)
			}
			out = append(out, tok{"str", src[i+1 : i+1+j], i})
			i = i + j + 2
		case c >= '0' && c <= '9':
			j := i
			for j < len(src) && src[j] >= '0' && src[j] <= '9' {
				j++
			}
			out = append(out, tok{"int", src[i:j], i})
			i = j
		case isIdStart(c):
			j := i + 1
			for j < len(src) && (isIdStart(src[j]) || (src[j] >= '0' && src[j] <= '9') || src[j] == '\'') {
				j++
			}
			out = append(out, tok{"id", src[i:j], i})
			i = j
		default:
			ops := []string{"<==>", "==>", "::", ":=", "==", "!=", "<=", ">=", "&&", "||", "++"}
			matched := false
			for _, o := range ops {
				if strings.HasPrefix(src[i:], o) {
					out = append(out, tok{"op", o, i})
					i += len(o)
					matched = true
					break
				}
			}
			if matched {
				continue
			}
			if strings.ContainsRune("+-*/%<>!()[]{}.,?:;|@", rune(c)) {
				out = append(out, tok{"op", string(c), i})
				i++
				continue
			}
			return nil, fmt.Errorf("unexpected character %q at %d in %q", c, i, src)
		}
	}
	out = append(out, tok{"eof", "", len(src)})
	return out, nil
}

func isIdStart(c byte) bool {
	return c == '_' || c == '$' || (c >= 'a' && c <= 'z') || (c >= 'A' && c <= 'Z')
}

type parser struct {
	toks []tok
	p    int
	src  string
}

func ParseExpr(src string) (e *Expr, err error) {
	toks, err := lex(src)
	if err != nil {
		return nil, err
	}
	ps := &parser{toks: toks, src: src}
	defer func() {
		if r := recover(); r != nil {
			if pe, ok := r.(parseErr); ok {
				err = fmt.Errorf("%s in %q", string(pe), src)
				return
			}
			panic(r)
		}
	}()
	e = ps.expr(0)
	if ps.peek().kind != "eof" {
		ps.fail("unexpected %q", ps.peek().s)
	}
	return e, nil
}

type parseErr string

func (p *parser) fail(f string, a ...interface{}) {
	panic(parseErr(fmt.Sprintf("parse error at %d: ", p.peek().pos) + fmt.Sprintf(f, a...)))
}
func (p *parser) peek() tok { return p.toks[p.p] }
func (p *parser) next() tok { t := p.toks[p.p]; p.p++; return t }
func (p *parser) isOp(s string) bool {
	t := p.peek()
	return t.kind == "op" && t.s == s
}
func (p *parser) expect(s string) {
	if !p.isOp(s) {
		p.fail("expected %q, got %q", s, p.peek().s)
	}
	p.p++
}

var binPrec = map[string]int{
	"<==>": 1, "==>": 2, "||": 4, "&&": 5,
	"==": 6, "!=": 6, "<": 6, "<=": 6, ">": 6, ">=": 6,
	"+": 7, "-": 7, "++": 7, "*": 8, "/": 8, "%": 8,
}

func (p *parser) expr(min int) *Expr {
	lhs := p.unary()
	for {
		t := p.peek()
		if t.kind != "op" {
			break
		}
		if t.s == "?" && min <= 3 {
			p.next()
			a := p.expr(3)
			p.expect(":")
			b := p.expr(3)
			lhs = &Expr{Kind: "cond", X: lhs, Y: a, Z: b, Pos: t.pos}
			continue
		}
		prec, ok := binPrec[t.s]
		if !ok || prec < min {
			break
		}
		p.next()
		var rhs *Expr
		if t.s == "==>" {
			rhs = p.expr(prec) // right assoc
		} else {
			rhs = p.expr(prec + 1)
		}
		lhs = &Expr{Kind: "binary", Op: t.s, X: lhs, Y: rhs, Pos: t.pos}
	}
	return lhs
}

func (p *parser) typeName() string {
	s := ""
	for p.isOp("*") {
		p.next()
		s += "*"
	}
	if p.isOp("[") {
		p.next()
		p.expect("]")
		return s + "[]" + p.typeName()
	}
	t := p.next()
	if t.kind != "id" {
		p.fail("expected type name, got %q", t.s)
	}
	s += t.s
	// Array<K,V> style spec sorts are written with identifiers only; raw SMT sorts can be given in backquotes
	return s
}

func (p *parser) unary() *Expr {
	t := p.peek()
	if t.kind == "op" {
		switch t.s {
		case "!":
			p.next()
			return &Expr{Kind: "unary", Op: "!", X: p.unary(), Pos: t.pos}
		case "-":
			p.next()
			return &Expr{Kind: "unary", Op: "-", X: p.unary(), Pos: t.pos}
		case "*":
			p.next()
			return &Expr{Kind: "deref", X: p.unary(), Pos: t.pos}
		}
	}
	if t.kind == "id" && (t.s == "forall" || t.s == "exists") {
		p.next()
		q := &Expr{Kind: "quant", Op: t.s, Pos: t.pos}
		for {
			n := p.next()
			if n.kind != "id" {
				p.fail("expected bound variable")
			}
			var ty string
			if p.peek().kind == "str" {
				ty = "`" + p.next().s
			} else {
				ty = p.typeName()
			}
			q.Vars = append(q.Vars, QVar{n.s, ty})
			if p.isOp(",") {
				p.next()
				continue
			}
			break
		}
		p.expect("::")
		for p.isOp("{") {
			p.next()
			var pat []*Expr
			for {
				pat = append(pat, p.expr(0))
				if p.isOp(",") {
					p.next()
					continue
				}
				break
			}
			p.expect("}")
			q.Pats = append(q.Pats, pat)
		}
		q.X = p.expr(0)
		return q
	}
	if t.kind == "id" && t.s == "let" {
		p.next()
		n := p.next()
		p.expect(":=")
		v := p.expr(3)
		p.expect("::")
		body := p.expr(0)
		return &Expr{Kind: "let", Name: n.s, X: v, Y: body, Pos: t.pos}
	}
	return p.postfix(p.primary())
}

func (p *parser) primary() *Expr {
	t := p.next()
	switch t.kind {
	case "int":
		return &Expr{Kind: "int", Val: t.s, Pos: t.pos}
	case "str":
		return &Expr{Kind: "str", Val: t.s, Pos: t.pos}
	case "id":
		switch t.s {
		case "true", "false":
			return &Expr{Kind: "bool", Val: t.s, Pos: t.pos}
		case "nil":
			return &Expr{Kind: "nil", Pos: t.pos}
		case "old":
			p.expect("(")
			x := p.expr(0)
			p.expect(")")
			return &Expr{Kind: "old", X: x, Pos: t.pos}
		}
		return &Expr{Kind: "ident", Name: t.s, Pos: t.pos}
	case "op":
		if t.s == "(" {
			x := p.expr(0)
			p.expect(")")
			return x
		}
	}
	p.p--
	p.fail("unexpected %q", t.s)
	return nil
}

func (p *parser) postfix(x *Expr) *Expr {
	for {
		t := p.peek()
		if t.kind != "op" {
			return x
		}
		switch t.s {
		case ".":
			p.next()
			n := p.next()
			if n.kind != "id" {
				p.fail("expected field name")
			}
			x = &Expr{Kind: "field", X: x, Name: n.s, Pos: t.pos}
		case "[":
			p.next()
			if p.isOp(":") {
				p.next()
				hi := p.expr(0)
				p.expect("]")
				x = &Expr{Kind: "slice", X: x, Z: hi, Pos: t.pos}
				continue
			}
			i := p.expr(0)
			if p.isOp(":") {
				p.next()
				var hi *Expr
				if !p.isOp("]") {
					hi = p.expr(0)
				}
				p.expect("]")
				x = &Expr{Kind: "slice", X: x, Y: i, Z: hi, Pos: t.pos}
				continue
			}
			p.expect("]")
			x = &Expr{Kind: "index", X: x, Y: i, Pos: t.pos}
		case "(":
			if x.Kind != "ident" {
				return x
			}
			p.next()
			c := &Expr{Kind: "call", Name: x.Name, Pos: t.pos}
			for !p.isOp(")") {
				c.Args = append(c.Args, p.expr(0))
				if p.isOp(",") {
					p.next()
				} else {
					break
				}
			}
			p.expect(")")
			x = c
		default:
			return x
		}
	}
}

func (e *Expr) String() string {
	if e == nil {
		return ""
	}
	switch e.Kind {
	case "ident":
		return e.Name
	case "int", "bool":
		return e.Val
	case "str":
		return strconv.Quote(e.Val)
	case "nil":
		return "nil"
	case "unary":
		return e.Op + e.X.String()
	case "deref":
		return "*" + e.X.String()
	case "binary":
		return "(" + e.X.String() + " " + e.Op + " " + e.Y.String() + ")"
	case "cond":
		return "(" + e.X.String() + " ? " + e.Y.String() + " : " + e.Z.String() + ")"
	case "field":
		return e.X.String() + "." + e.Name
	case "index":
		return e.X.String() + "[" + e.Y.String() + "]"
	case "slice":
		return e.X.String() + "[" + e.Y.String() + ":" + e.Z.String() + "]"
	case "old":
		return "old(" + e.X.String() + ")"
	case "call":
		var as []string
		for _, a := range e.Args {
			as = append(as, a.String())
		}
		return e.Name + "(" + strings.Join(as, ", ") + ")"
	case "quant":
		var vs []string
		for _, v := range e.Vars {
			vs = append(vs, v.Name+" "+v.Type)
		}
		return "(" + e.Op + " " + strings.Join(vs, ", ") + " :: " + e.X.String() + ")"
	case "let":
		return "(let " + e.Name + " := " + e.X.String() + " :: " + e.Y.String() + ")"
	}
	return "?" + e.Kind
}
