package main

import (
	"bytes"
	"context"
	"encoding/json"
	"fmt"
	"os"
	"os/exec"
	"path"
	"path/filepath"
	"strings"
	"time"
)

// Replays. A failed obligation is replayed on the real code by a witness search: an in-package Go
// test (under /verif/replay/witness) that drives the real function with inputs built around the
// failed clause - seeded with the solver's model when one is available - and checks the clause with
// an independent Go oracle. The test is injected with `go test -overlay`, so nothing is written
// into /repo. A failing test is a failing input on the real code.

type witness struct {
	Obligation string `json:"obligation"`
	File       string `json:"file"`
	Test       string `json:"test"`
}

type witnessIndex struct {
	Witnesses []witness `json:"witnesses"`
}

func loadWitnesses() []witness {
	var idx witnessIndex
	b, err := os.ReadFile(filepath.Join(verifDir, "replay", "index.json"))
	if err != nil {
		return nil
	}
	json.Unmarshal(b, &idx)
	return idx.Witnesses
}

// runOverlayTest runs one test of a witness file inside package jen; returns output and whether it failed.
func runOverlayTest(file, test string, extraEnv []string) (string, bool, error) {
	src := filepath.Join(verifDir, "replay", "witness", file)
	work, err := os.MkdirTemp(filepath.Join(verifDir, ".work"), "replay")
	if err != nil {
		os.MkdirAll(filepath.Join(verifDir, ".work"), 0755)
		work, err = os.MkdirTemp(filepath.Join(verifDir, ".work"), "replay")
		if err != nil {
			return "", false, err
		}
	}
	defer os.RemoveAll(work)
	ov := map[string]map[string]string{"Replace": {filepath.Join(repoDir, "jen", "zz_replay_verif_test.go"): src}}
	ob, _ := json.Marshal(ov)
	ovf := filepath.Join(work, "overlay.json")
	os.WriteFile(ovf, ob, 0644)
	ctx, cancel := context.WithTimeout(context.Background(), 120*time.Second)
	defer cancel()
	cmd := exec.CommandContext(ctx, "go", "test", "-overlay", ovf, "-vet=off", "-count=1", "-timeout", "60s", "-run", "^"+test+"$", "./jen")
	cmd.Dir = repoDir
	cmd.Env = append(os.Environ(), "GOFLAGS=-mod=mod", "GOPROXY=off", "GOSUMDB=off", "GOTOOLCHAIN=local")
	cmd.Env = append(cmd.Env, extraEnv...)
	var out bytes.Buffer
	cmd.Stdout = &out
	cmd.Stderr = &out
	err = cmd.Run()
	txt := out.String()
	if err == nil {
		return txt, false, nil
	}
	if strings.Contains(txt, "--- FAIL") || strings.Contains(txt, "panic:") {
		return txt, true, nil
	}
	return txt, false, fmt.Errorf("replay could not run: %v", err)
}

func init() {
	replayers = append(replayers, func(r *Run, res *ObResult) (string, bool, bool) {
		var log strings.Builder
		handled, anyFailed := false, false
		ws := loadWitnesses()
		exact := false
		for _, w := range ws {
			if obMatch(w.Obligation, res.Name) {
				exact = true
			}
		}
		unit, _, _ := strings.Cut(res.Name, "#")
		done := map[string]bool{}
		for _, w := range ws {
			// exact match on the obligation; otherwise every witness search of the same function
			if exact && !obMatch(w.Obligation, res.Name) {
				continue
			}
			if !exact && !strings.HasPrefix(w.Obligation, unit+"#") {
				continue
			}
			if !exact && loadKnown().lookup("*", w.Obligation) != nil {
				continue // the witness of a recorded finding fails on the unchanged tree already
			}
			if done[w.File+"/"+w.Test] {
				continue
			}
			done[w.File+"/"+w.Test] = true
			handled = true
			var env []string
			if res.bad != nil && res.bad.Model != "" {
				mf := filepath.Join(verifDir, "replays", fmt.Sprintf("%s-%s.model", r.Prop, mangle(res.Name)))
				os.WriteFile(mf, []byte(res.bad.Model), 0644)
				env = append(env, "JVC_MODEL="+mf)
			}
			out, failed, err := runOverlayTest(w.File, w.Test, env)
			if err != nil {
				fmt.Fprintf(&log, "witness search %s/%s: %v\n%s\n", w.File, w.Test, err, out)
				continue
			}
			fmt.Fprintf(&log, "witness search %s (%s), injected with go test -overlay into /repo/jen:\n%s\n", w.Test, w.File, out)
			if failed {
				anyFailed = true
			}
		}
		return log.String(), anyFailed, handled
	})
}

// tryReplay attempts to show the failed obligation on the real code. Returns the replay log and
// whether the real code misbehaved.
func (r *Run) tryReplay(res *ObResult) (string, bool) {
	for _, f := range replayers {
		if out, ok, handled := f(r, res); handled {
			return out, ok
		}
	}
	return "", false
}

var replayers []func(r *Run, res *ObResult) (string, bool, bool)

// obMatch: an index entry names one obligation, or a family of obligations with * (as in path.Match).
func obMatch(pattern, name string) bool {
	if pattern == name {
		return true
	}
	if strings.Contains(pattern, "*") {
		ok, _ := path.Match(pattern, name)
		return ok
	}
	return false
}
