package main

import (
	"go/types"
	"os"
	"fmt"
	"strconv"
	"strings"
)

// expandConstructs turns each row of the construct table (//@ construct ...) into the contracts of
// all forms of that construct that exist in the package: (*Statement).N, N, (*Group).N and the
// NFunc variants. The rows are written from the documented behaviour of each construct.
func (v *Verifier) expandConstructs() []string {
	var errs []string
	mk := func(key string, props []string) *Contract {
		c := &Contract{Key: key, Invs: map[int][]*Clause{}, Flags: map[string]bool{"generated": true}, Props: props}
		return c
	}
	addClause := func(c *Contract, kind, props, label, src string, unfold ...string) {
		e, err := ParseExpr(src)
		if err != nil {
			errs = append(errs, fmt.Sprintf("construct %s: %v", c.Key, err))
			return
		}
		cl := &Clause{Kind: kind, Label: label, Expr: e, Src: src, Unfold: unfold}
		if props != "" {
			cl.Props = strings.Split(props, ",")
		}
		switch kind {
		case "requires":
			c.Requires = append(c.Requires, cl)
		case "ensures":
			c.Ensures = append(c.Ensures, cl)
		}
	}
	addMod := func(c *Contract, srcs ...string) {
		for _, s := range srcs {
			e, err := ParseExpr(s)
			if err != nil {
				errs = append(errs, fmt.Sprintf("construct %s: %v", c.Key, err))
				continue
			}
			c.Modifies = append(c.Modifies, e)
			c.ModSrc = append(c.ModSrc, s)
		}
	}
	props := []string{"C14", "C01", "C20", "C09"}
	for _, row := range v.contracts.constructs {
		q := strconv.Quote
		for _, fn := range []struct {
			suffix string
			isFunc bool
		}{{"", false}, {"Func", true}} {
			if fn.isFunc && row.Kind != "group" {
				continue
			}
			name := row.Name + fn.suffix
			stmtKey := "(*Statement)." + name
			sfn := v.fnByKey[stmtKey]
			if sfn == nil {
				if !fn.isFunc {
					errs = append(errs, fmt.Sprintf("construct %s: no method %s in package jen", row.Name, stmtKey))
				}
				continue
			}
			// the item the method appends, as a predicate over the Code value x
			var item func(x string) string
			var argsOK string
			switch row.Kind {
			case "token":
				item = func(x string) string {
					return fmt.Sprintf("%s == C_token(mk_token(%s, A_string(%s)))", x, q(row.TokTyp), q(row.TokTxt))
				}
			case "tokennull":
				item = func(x string) string { return fmt.Sprintf("%s == C_token(mk_token(\"null\", A_nil))", x) }
			case "tokenstr", "tokenany", "tokenrune", "tokenbyte":
				arg := sfn.Params[1].Name()
				wrap := map[string]string{"tokenstr": "A_string(%s)", "tokenany": "%s", "tokenrune": "A_int32(%s)", "tokenbyte": "A_uint8(%s)"}[row.Kind]
				item = func(x string) string {
					return fmt.Sprintf("%s == C_token(mk_token(%s, %s))", x, q(row.TokTyp), fmt.Sprintf(wrap, arg))
				}
			case "group":
				params := sfn.Params[1:]
				item = func(x string) string {
					g := "C_pGroup_v(" + x + ")"
					s := fmt.Sprintf("is_C_pGroup(%s) && fresh(%s) && %s.name == %s && %s.open == %s && %s.close == %s && %s.separator == %s && %s.multi == %v",
						x, g, g, q(row.GName), g, q(row.Open), g, q(row.Close), g, q(row.Sep), g, row.Multi)
					if fn.isFunc {
						return s
					}
					if sfn.Signature.Variadic() {
						return s + fmt.Sprintf(" && %s.items == %s", g, params[0].Name())
					}
					s += fmt.Sprintf(" && len(%s.items) == %d && fresh(%s.items.arr)", g, len(params), g)
					for i, p := range params {
						s += fmt.Sprintf(" && %s.items[%d] == %s", g, i, p.Name())
					}
					return s
				}
			default:
				errs = append(errs, fmt.Sprintf("construct %s: unknown kind %q", row.Name, row.Kind))
				continue
			}
			// (*Statement).N
			c := mk(stmtKey, append([]string{"C02"}, props...))
			addClause(c, "requires", "", "recv", "s != nil")
			// data-structure invariant of the Code tree (C02, C11, C12 rely on it): the builder may assume it and
			// must re-establish it, given well-formed arguments
			if !fn.isFunc {
				switch row.Kind {
				case "group":
					params := sfn.Params[1:]
					if sfn.Signature.Variadic() {
						argsOK = fmt.Sprintf("forall j int :: { %s[j] } (0 <= j && j < len(%s)) ==> wfC(%s[j])", params[0].Name(), params[0].Name(), params[0].Name())
					} else {
						var ps []string
						for _, p := range params {
							ps = append(ps, "wfC("+p.Name()+")")
						}
						argsOK = strings.Join(ps, " && ")
					}
				case "tokenany":
					argsOK = "supportedLit(" + sfn.Params[1].Name() + ")"
				}
				addClause(c, "requires", "", "tree", "treeOK()", "treeOK")
				if argsOK != "" && os.Getenv("JVC_DROP_ARGS") == "" {
					addClause(c, "requires", "", "args", argsOK)
				}
				addClause(c, "ensures", "C02", "tree", "treeOK()", "treeOK")
			} else {
				// a callback changes the tree only through the exported API (see execCallback)
				addClause(c, "requires", "", "tree", "treeOK()", "treeOK")
				addClause(c, "ensures", "C02", "tree", "treeOK()", "treeOK")
			}
			addMod(c, "*s", "tail(*s)")
			if fn.isFunc {
				addMod(c, "calls[f]")
				addClause(c, "ensures", "C14", "once", "calls[f] == old(calls[f]) + 1")
			}
			addClause(c, "ensures", "C14,C20", "self", "result == s")
			if fn.isFunc {
				// the callback is code outside the package: it may have used any exported builder on anything it
				// can reach (the receiver included), so the postcondition speaks about the last item only
				addMod(c, "apiEffects")
				addClause(c, "ensures", "C14,C01", "item", "len(*s) >= 1 && "+item("(*s)[len(*s) - 1]"))
				addClause(c, "ensures", "C14", "arg", "len(*s) >= 1 && cbarg(f, calls[f], 0) == C_pGroup_v((*s)[len(*s) - 1])")
			} else {
				addClause(c, "ensures", "C14,C20,C01", "appended", "len(*s) == old(len(*s)) + 1 && (forall j int :: { (*s)[j] } (0 <= j && j < old(len(*s))) ==> (*s)[j] == old((*s)[j]))")
				addClause(c, "ensures", "C14,C01", "item", item("(*s)[old(len(*s))]"))
				// C20: the append is in place when capacity allows, otherwise into a fresh backing array
				addClause(c, "ensures", "C20,C14", "backing", "len(*s) <= cap(*s) && (old(len(*s)) < old(cap(*s)) ? (*s).arr == old((*s).arr) && cap(*s) == old(cap(*s)) : fresh((*s).arr))")
			}
			v.contracts.add(c)
		}
	}
	// Every construct's function form and *Group form delegate to the *Statement method: their contracts are
	// derived from the method's contract (hand-written or generated), so that all forms are specified alike.
	for _, key := range append([]string(nil), v.contracts.order...) {
		if !strings.HasPrefix(key, "(*Statement).") {
			continue
		}
		m := v.contracts.byKey[key]
		name := strings.TrimPrefix(key, "(*Statement).")
		sfn := v.fnByKey[key]
		if sfn == nil || !sfn.Object().Exported() || name == "Clone" || name == "GoString" || name == "Render" || name == "RenderWithFile" {
			continue
		}
		callback := false
		for _, ms := range m.ModSrc {
			if ms == "apiEffects" {
				callback = true
			}
		}
		mprops := m.Props
		if len(mprops) == 0 {
			mprops = props
		}
		derive := func(c *Contract, groupForm bool) {
			for _, r := range m.Requires {
				if !mentionsIdent(r.Expr, "s") {
					c.Requires = append(c.Requires, r)
				}
			}
			for i, me := range m.Modifies {
				if !mentionsIdent(me, "s") {
					c.Modifies = append(c.Modifies, me)
					c.ModSrc = append(c.ModSrc, m.ModSrc[i])
				}
			}
			for _, e := range m.Ensures {
				if e.Label == "self" || e.Label == "backing" {
					continue
				}
				if !mentionsIdent(e.Expr, "s") {
					c.Ensures = append(c.Ensures, e)
					continue
				}
				if groupForm && callback {
					continue // the callback may alias anything: the item is specified on the function form
				}
				te := onFreshStatement(e.Expr)
				c.Ensures = append(c.Ensures, &Clause{Kind: "ensures", Props: e.Props, Label: e.Label, Expr: te, Src: te.String(), Unfold: e.Unfold})
			}
		}
		if f := v.fnByKey[name]; f != nil && v.contracts.byKey[name] == nil {
			c := mk(name, mprops)
			derive(c, false)
			if callback {
				addClause(c, "ensures", "C14,C20,C09", "fresh", "fresh(result)")
			} else {
				addClause(c, "ensures", "C14,C20,C09", "fresh", "fresh(result) && (len(*result) > 0 ==> fresh((*result).arr))")
			}
			v.contracts.add(c)
		}
		if f := v.fnByKey["(*Group)."+name]; f != nil && v.contracts.byKey["(*Group)."+name] == nil {
			c := mk("(*Group)."+name, mprops)
			addClause(c, "requires", "", "recv", "g != nil")
			addMod(c, "g.items", "tail(g.items)")
			derive(c, true)
			if callback {
				addClause(c, "ensures", "C14,C20,C09", "fresh", "fresh(result)")
				addClause(c, "ensures", "C14", "added", "len(g.items) >= 1 && g.items[len(g.items) - 1] == C_pStatement(result)")
			} else {
				addClause(c, "ensures", "C14,C20,C09", "fresh", "fresh(result) && (len(*result) > 0 ==> fresh((*result).arr))")
				addClause(c, "ensures", "C14", "added", "len(g.items) == old(len(g.items)) + 1 && g.items[old(len(g.items))] == C_pStatement(result) && (forall j int :: { g.items[j] } (0 <= j && j < old(len(g.items))) ==> g.items[j] == old(g.items[j]))")
			}
			v.contracts.add(c)
		}
	}
	return errs
}

func (cs *Contracts) add(c *Contract) {
	if _, dup := cs.byKey[c.Key]; dup {
		return // a hand-written contract takes precedence
	}
	number := func(cls []*Clause, prefix string) {
		for i, cl := range cls {
			if cl.Label == "" {
				cl.Label = fmt.Sprintf("%s%d", prefix, i+1)
			}
		}
	}
	number(c.Requires, "r")
	number(c.Ensures, "e")
	cs.byKey[c.Key] = c
	cs.order = append(cs.order, c.Key)
}

func mentionsIdent(e *Expr, name string) bool {
	if e == nil {
		return false
	}
	if e.Kind == "ident" && e.Name == name {
		return true
	}
	for _, x := range []*Expr{e.X, e.Y, e.Z} {
		if mentionsIdent(x, name) {
			return true
		}
	}
	for _, a := range e.Args {
		if mentionsIdent(a, name) {
			return true
		}
	}
	for _, p := range e.Pats {
		for _, x := range p {
			if mentionsIdent(x, name) {
				return true
			}
		}
	}
	return false
}

// onFreshStatement rewrites a postcondition of a *Statement method about receiver s into the
// postcondition of the function form, where the receiver is a new, empty statement: s -> result,
// old(len(*s)) and old(cap(*s)) -> 0.
func onFreshStatement(e *Expr) *Expr {
	if e == nil {
		return nil
	}
	if e.Kind == "old" && e.X != nil && e.X.Kind == "call" && (e.X.Name == "len" || e.X.Name == "cap") && len(e.X.Args) == 1 &&
		e.X.Args[0].Kind == "deref" && e.X.Args[0].X.Kind == "ident" && e.X.Args[0].X.Name == "s" {
		return &Expr{Kind: "int", Val: "0", Pos: e.Pos}
	}
	if e.Kind == "ident" && e.Name == "s" {
		return &Expr{Kind: "ident", Name: "result", Pos: e.Pos}
	}
	c := *e
	c.X, c.Y, c.Z = onFreshStatement(e.X), onFreshStatement(e.Y), onFreshStatement(e.Z)
	c.Args = nil
	for _, a := range e.Args {
		c.Args = append(c.Args, onFreshStatement(a))
	}
	c.Pats = nil
	for _, p := range e.Pats {
		var np []*Expr
		for _, x := range p {
			np = append(np, onFreshStatement(x))
		}
		c.Pats = append(c.Pats, np)
	}
	return &c
}

// synthesizeDefaults gives every exported function that has no contract, but can change the Code tree or
// runs a callback (an addition to the API), the contract every builder has: non-nil receiver, well-formed
// tree and arguments in, well-formed tree out. Only the callee preconditions and `post.tree` of such a unit
// are obligations (it declares no frame); without it pkg#tree-invariant-api would have to reject the package.
func (v *Verifier) synthesizeDefaults() []string {
	if _, has := v.spec.recdefs["treeOK"]; !has {
		return nil
	}
	cx := NewCtx(v.enc, v.spec, "synth")
	cx.tree = cx.InitState("S")
	if err := cx.computeTreeReads(); err != nil {
		return []string{err.Error()}
	}
	reads := cx.recReads["treeOK"]
	var errs []string
	for _, f := range v.eff.all {
		key := fnKey(f)
		if !isExportedFn(f) || f.Synthetic != "" || v.contracts.byKey[key] != nil {
			continue
		}
		e := v.eff.fns[f]
		touches := e.Dynamic
		for cn := range reads {
			if e.W[cn] || e.A[cn] {
				touches = true
			}
		}
		if !touches {
			continue
		}
		c := &Contract{Key: key, Invs: map[int][]*Clause{}, Flags: map[string]bool{"synthesized": true}, Props: []string{"C02", "C09", "C14"}}
		add := func(kind, label, src string, unfold ...string) {
			ex, err := ParseExpr(src)
			if err != nil {
				errs = append(errs, fmt.Sprintf("default contract of %s: %v", key, err))
				return
			}
			cl := &Clause{Kind: kind, Label: label, Expr: ex, Src: src, Unfold: unfold, Props: []string{"C02"}}
			if kind == "requires" {
				c.Requires = append(c.Requires, cl)
			} else {
				c.Ensures = append(c.Ensures, cl)
			}
		}
		for i, prm := range f.Params {
			n := prm.Name()
			if n == "" || n == "_" {
				continue
			}
			if i == 0 && f.Signature.Recv() != nil {
				if _, isPtr := prm.Type().Underlying().(*types.Pointer); isPtr {
					add("requires", "recv", n+" != nil")
				}
				continue
			}
			if v.enc.SortOf(prm.Type()) == "Code" {
				add("requires", "arg_"+n, "wfC("+n+")")
			} else if sl, ok := prm.Type().Underlying().(*types.Slice); ok && v.enc.SortOf(sl.Elem()) == "Code" {
				add("requires", "arg_"+n, fmt.Sprintf("forall j int :: { %s[j] } (0 <= j && j < len(%s)) ==> wfC(%s[j])", n, n, n))
			}
		}
		add("requires", "tree", "treeOK()", "treeOK")
		add("ensures", "tree", "treeOK()", "treeOK")
		v.contracts.add(c)
		fmt.Fprintf(os.Stderr, "jvc: note: exported function %s has no contract; checked against the default builder contract (tree invariant in, tree invariant out)\n", key)
	}
	return errs
}
