package main

import (
	"encoding/json"
	"flag"
	"fmt"
	"os"
	"path/filepath"
	"sort"
	"strconv"
	"strings"
	"time"

	"golang.org/x/tools/go/packages"
	"golang.org/x/tools/go/ssa"
	"golang.org/x/tools/go/ssa/ssautil"
)

var (
	repoDir  = envOr("JVC_REPO", "/repo")
	verifDir = envOr("JVC_VERIF", "/verif")
)

func envOr(k, d string) string {
	if v := os.Getenv(k); v != "" {
		return v
	}
	return d
}

type Loaded struct {
	pkgs []*packages.Package
	jen  *packages.Package
	prog *ssa.Program
	spkg *ssa.Package
	v    *Verifier
}

func load() (*Loaded, error) {
	cfg := &packages.Config{Mode: packages.LoadAllSyntax, Dir: repoDir, BuildFlags: []string{"-tags=verif"},
		Env: append(os.Environ(), "GOFLAGS=-mod=mod", "GOPROXY=off", "GOSUMDB=off", "GOTOOLCHAIN=local")}
	pkgs, err := packages.Load(cfg, "./jen")
	if err != nil {
		return nil, err
	}
	if packages.PrintErrors(pkgs) > 0 {
		return nil, fmt.Errorf("package jen does not type-check")
	}
	prog, spkgs := ssautil.AllPackages(pkgs, ssa.GlobalDebug)
	prog.Build()
	L := &Loaded{pkgs: pkgs, jen: pkgs[0], prog: prog, spkg: spkgs[0]}
	enc := NewEnc(prog, spkgs[0])
	spec := NewSpec()
	files, _ := filepath.Glob(filepath.Join(verifDir, "prelude", "*.spec"))
	sort.Strings(files)
	for _, f := range files {
		if err := spec.LoadFile(f); err != nil {
			return nil, err
		}
	}
	cs, err := LoadContracts(filepath.Join(repoDir, "jen", "zz_contracts_verif.go"))
	if err != nil {
		return nil, err
	}
	// make sure every type of the package has its sort/components registered before specs are resolved
	for _, f := range allFunctions(enc) {
		for _, b := range f.Blocks {
			for _, in := range b.Instrs {
				if v, ok := in.(ssa.Value); ok {
					enc.SortOf(v.Type())
				}
			}
		}
	}
	boot := NewCtx(enc, spec, "boot")
	if err := spec.Finish(boot); err != nil {
		return nil, err
	}
	v := &Verifier{enc: enc, spec: spec, contracts: cs, fnByKey: map[string]*ssa.Function{}, maxPaths: 4000, fuel: 1, bound: map[*ssa.Function]*BoundContract{}}
	v.eff = NewEffectsDB(enc)
	v.globals = LoadGlobalTables(pkgs[0])
	for _, f := range v.eff.all {
		v.fnByKey[fnKey(f)] = f
	}
	if errs := v.expandConstructs(); len(errs) > 0 {
		return nil, fmt.Errorf("construct table: %s", strings.Join(errs, "; "))
	}
	if errs := v.synthesizeDefaults(); len(errs) > 0 {
		return nil, fmt.Errorf("default contracts: %s", strings.Join(errs, "; "))
	}
	L.v = v
	return L, nil
}

// ---- results ----

type ObResult struct {
	Name    string   `json:"name"`
	Kind    string   `json:"kind"`
	Props   []string `json:"props,omitempty"`
	Status  string   `json:"status"` // discharged refuted unknown error known-finding
	Queries int      `json:"queries"`
	Solver  string   `json:"solver,omitempty"`
	Millis  int64    `json:"ms"`
	MaxMs   int64    `json:"slowest_query_ms"`
	Src     string   `json:"clause,omitempty"`
	Detail  string   `json:"detail,omitempty"`
	bad     *Query
}

func summarize(o *Obligation) *ObResult {
	r := &ObResult{Name: o.Name, Kind: o.Kind, Props: o.Props, Queries: len(o.Queries), Src: o.Src, Status: "discharged"}
	solvers := map[string]bool{}
	for _, q := range o.Queries {
		r.Millis += q.Millis
		if q.Millis > r.MaxMs {
			r.MaxMs = q.Millis
		}
		if q.Solver != "" {
			solvers[q.Solver] = true
		}
		switch q.Result {
		case "unsat":
		case "sat":
			if r.Status != "refuted" {
				r.Status = "refuted"
				r.bad = q
			}
		default:
			if r.Status == "discharged" {
				r.Status = "unknown"
				if q.Result == "error" {
					r.Status = "error"
				}
				r.bad = q
			}
		}
	}
	r.Solver = strings.Join(sortedKeys(solvers), ",")
	return r
}

func hasProp(props []string, p string) bool {
	for _, x := range props {
		if x == p {
			return true
		}
	}
	return false
}

func main() {
	if len(os.Args) < 2 {
		fmt.Fprintln(os.Stderr, "usage: jvc check <property>|all [--tier quick|thorough] | units | dump <func> | effects")
		os.Exit(2)
	}
	switch os.Args[1] {
	case "check":
		os.Exit(cmdCheck(os.Args[2:]))
	case "units":
		L, err := load()
		if err != nil {
			fmt.Fprintln(os.Stderr, err)
			os.Exit(2)
		}
		for _, k := range L.v.contracts.order {
			c := L.v.contracts.byKey[k]
			fmt.Printf("%-40s props=%v iface=%v\n", k, c.Props, c.IsIface)
		}
	case "effects":
		L, err := load()
		if err != nil {
			fmt.Fprintln(os.Stderr, err)
			os.Exit(2)
		}
		for _, f := range L.v.eff.all {
			e := L.v.eff.fns[f]
			fmt.Printf("%-40s W=%v A=%v dyn=%v unknown=%v\n", fnDisplay(f), sortedKeys(e.W), sortedKeys(e.A), e.Dynamic, e.Unknown)
		}
		fmt.Printf("API W=%v\n", sortedKeys(L.v.eff.api.W))
	case "dump":
		os.Exit(cmdDump(os.Args[2:]))
	case "replay":
		os.Exit(cmdReplay(os.Args[2:]))
	default:
		fmt.Fprintln(os.Stderr, "unknown command", os.Args[1])
		os.Exit(2)
	}
}

func cmdDump(args []string) int {
	L, err := load()
	if err != nil {
		fmt.Fprintln(os.Stderr, err)
		return 2
	}
	fn := L.v.fnByKey[args[0]]
	if fn == nil {
		fmt.Fprintln(os.Stderr, "no function", args[0])
		return 2
	}
	u := L.v.NewUnit(fn)
	if u.bc == nil {
		fmt.Fprintln(os.Stderr, "no contract for", args[0])
		return 2
	}
	u.Run()
	for _, s := range u.undecided {
		fmt.Println("UNDECIDED:", s)
	}
	for _, o := range u.Obligations() {
		fmt.Printf("%s  [%s] %d queries  %s\n", o.Name, o.Kind, len(o.Queries), o.Src)
		if len(args) > 1 && strings.Contains(o.Name, args[1]) {
			for _, q := range o.Queries {
				smt, err := q.BuildSMT(L.v.fuel, nil, u.facts())
				if err != nil {
					fmt.Println("ERR", err)
				}
				fmt.Println(smt)
			}
		}
	}
	return 0
}

type Options struct {
	Tier string
	Seed int
	Only string
}

func cmdCheck(args []string) int {
	fs := flag.NewFlagSet("check", flag.ExitOnError)
	tier := fs.String("tier", "quick", "quick|thorough")
	only := fs.String("only", "", "restrict to units whose name contains this")
	verbose := fs.Bool("v", false, "verbose")
	obf := fs.String("ob", "", "restrict to obligations whose name contains this")
	if len(args) < 1 {
		fmt.Fprintln(os.Stderr, "check needs a property id")
		return 2
	}
	prop := args[0]
	fs.Parse(args[1:])
	if t := os.Getenv("VERIF_TIER"); t == "quick" || t == "thorough" {
		*tier = t
	}
	seed := 0
	if s := os.Getenv("VERIF_SEED"); s != "" {
		seed, _ = strconv.Atoi(s)
	}
	start := time.Now()
	L, err := load()
	if err != nil {
		fmt.Fprintln(os.Stderr, "jvc: load failed:", err)
		fmt.Printf("UNDECIDED property=%s reason=load-failed\n", prop)
		return 2
	}
	run := &Run{L: L, Prop: prop, Tier: *tier, Seed: seed, Only: *only, ObFilter: *obf, Verbose: *verbose, Start: start}
	return run.Execute()
}

func writeJSON(path string, v interface{}) error {
	b, err := json.MarshalIndent(v, "", " ")
	if err != nil {
		return err
	}
	os.MkdirAll(filepath.Dir(path), 0755)
	return os.WriteFile(path, append(b, '\n'), 0644)
}

// cmdReplay prints a replay file and re-runs the witness searches of the obligation it names.
func cmdReplay(args []string) int {
	if len(args) < 1 {
		fmt.Fprintln(os.Stderr, "usage: jvc replay <replay file>")
		return 2
	}
	b, err := os.ReadFile(args[0])
	if err != nil {
		fmt.Fprintln(os.Stderr, err)
		return 2
	}
	fmt.Print(string(b))
	ob := ""
	for _, ln := range strings.Split(string(b), "\n") {
		if strings.HasPrefix(ln, "obligation: ") {
			ob = strings.TrimSpace(strings.TrimPrefix(ln, "obligation: "))
			break
		}
	}
	if ob == "" {
		return 0
	}
	unit, _, _ := strings.Cut(ob, "#")
	failed := false
	done := map[string]bool{}
	for _, w := range loadWitnesses() {
		if w.Obligation != ob && !strings.HasPrefix(w.Obligation, unit+"#") {
			continue
		}
		if done[w.File+"/"+w.Test] {
			continue
		}
		done[w.File+"/"+w.Test] = true
		out, f, err := runOverlayTest(w.File, w.Test, nil)
		fmt.Printf("\n=== re-running witness search %s (%s) against %s ===\n%s\n", w.Test, w.File, repoDir, out)
		if err == nil && f {
			failed = true
		}
	}
	if failed {
		fmt.Println("replay: the real code misbehaves (witness search failed)")
		return 1
	}
	fmt.Println("replay: no failing input found on the current tree")
	return 0
}
