package main

import (
	"fmt"
	"go/token"
	"go/types"
	"strings"

	"golang.org/x/tools/go/ssa"
)

// ---- bound contracts ----

// BoundClause is a clause together with the way its free names map to the function's parameters.
type BoundClause struct {
	*Clause
	FromIface bool
}

type BoundContract struct {
	fn       *ssa.Function
	own      *Contract
	iface    *Contract
	Requires []BoundClause
	Ensures  []BoundClause
	Panics   []BoundClause
	Modifies []BoundMod
}

type BoundMod struct {
	Expr      *Expr
	Src       string
	FromIface bool
}

func (v *Verifier) boundContract(fn *ssa.Function) *BoundContract {
	if bc, ok := v.bound[fn]; ok {
		return bc
	}
	own := v.contracts.byKey[fnKey(fn)]
	if own == nil {
		v.bound[fn] = nil
		return nil
	}
	bc := &BoundContract{fn: fn, own: own}
	if own.Implements != "" {
		bc.iface = v.contracts.byKey[own.Implements]
		if bc.iface == nil {
			panic(fmt.Sprintf("contract %s implements unknown interface contract %s", own.Key, own.Implements))
		}
		for _, c := range bc.iface.Requires {
			bc.Requires = append(bc.Requires, BoundClause{c, true})
		}
		for _, c := range bc.iface.Ensures {
			bc.Ensures = append(bc.Ensures, BoundClause{c, true})
		}
		for _, c := range bc.iface.Panics {
			bc.Panics = append(bc.Panics, BoundClause{c, true})
		}
		for i, m := range bc.iface.Modifies {
			bc.Modifies = append(bc.Modifies, BoundMod{m, bc.iface.ModSrc[i], true})
		}
	}
	for _, c := range own.Requires {
		bc.Requires = append(bc.Requires, BoundClause{c, false})
	}
	for _, c := range own.Ensures {
		bc.Ensures = append(bc.Ensures, BoundClause{c, false})
	}
	for _, c := range own.Panics {
		bc.Panics = append(bc.Panics, BoundClause{c, false})
	}
	for i, m := range own.Modifies {
		bc.Modifies = append(bc.Modifies, BoundMod{m, own.ModSrc[i], false})
	}
	v.bound[fn] = bc
	return bc
}

// contractVars builds the name->term environment for the clauses of a contract applied to
// concrete receiver/argument terms. args[0] is the receiver for methods.
func (v *Verifier) contractVars(fn *ssa.Function, iface *Contract, fromIface bool, args []*Term, results []*Term) map[string]*Term {
	enc := v.enc
	vars := map[string]*Term{}
	if fromIface {
		// receiver boxed as the interface value; parameters by position
		recv := args[0]
		if cn := enc.CodeCtor(fn.Signature.Recv().Type()); cn != "" {
			recv = enc.Mk(cn, recv).WithT(enc.codeT)
		}
		vars[iface.RecvName] = recv
		for i, n := range iface.ParamNames {
			if i+1 < len(args) {
				vars[n] = args[i+1]
			}
		}
	} else {
		for i, prm := range fn.Params {
			if i < len(args) && prm.Name() != "_" && prm.Name() != "" {
				vars[prm.Name()] = args[i]
			}
		}
	}
	if results != nil {
		res := fn.Signature.Results()
		for i, r := range results {
			vars[fmt.Sprintf("result%d", i)] = r
			if i == 0 {
				vars["result"] = r
			}
			if !fromIface && res.At(i).Name() != "" && res.At(i).Name() != "_" {
				vars[res.At(i).Name()] = r
			}
			// conventional name for a trailing error result
			if i == len(results)-1 && types.Identical(res.At(i).Type(), types.Universe.Lookup("error").Type()) {
				if _, taken := vars["err"]; !taken {
					vars["err"] = r
				}
			}
		}
	}
	return vars
}

// ifaceInvokeVars: environment for an interface-level contract at an invoke site.
func (v *Verifier) ifaceInvokeVars(c *Contract, recv *Term, args []*Term, results []*Term, sig *types.Signature) map[string]*Term {
	vars := map[string]*Term{c.RecvName: recv}
	for i, n := range c.ParamNames {
		if i < len(args) {
			vars[n] = args[i]
		}
	}
	for i, r := range results {
		vars[fmt.Sprintf("result%d", i)] = r
		if i == 0 {
			vars["result"] = r
		}
		if i == len(results)-1 && types.Identical(sig.Results().At(i).Type(), types.Universe.Lookup("error").Type()) {
			vars["err"] = r
		}
	}
	return vars
}

// ---- modifies regions ----

// Region describes where a component may change.
type Region struct {
	Comp  string
	Whole bool
	Idx   []*Term   // allowed indices (references)
	Cells []CellReg // for cells components: (array, lo, hi) absolute positions; lo==nil means whole array
}
type CellReg struct{ Arr, Lo, Hi *Term }

// evalModifies evaluates modifies clauses in the pre-state env.
func (u *Unit) evalModifies(mods []BoundMod, envFor func(fromIface bool) *Env) (map[string]*Region, error) {
	enc := u.v.enc
	out := map[string]*Region{}
	get := func(c string) *Region {
		r, ok := out[c]
		if !ok {
			r = &Region{Comp: c}
			out[c] = r
		}
		return r
	}
	for _, m := range mods {
		env := envFor(m.FromIface)
		x := m.Expr
		switch x.Kind {
		case "ident":
			if x.Name == "apiEffects" {
				// everything a user callback can change through the exported API
				for cn := range u.v.eff.api.W {
					get(cn).Whole = true
				}
				continue
			}
			if _, ok := enc.comps[x.Name]; ok {
				get(x.Name).Whole = true
				continue
			}
			return nil, fmt.Errorf("modifies: %s is not a heap component", x.Name)
		case "index":
			// comp[idx] or comp[*]
			if x.X.Kind == "ident" {
				if _, ok := enc.comps[x.X.Name]; ok {
					idx, err := env.Eval(x.Y)
					if err != nil {
						return nil, err
					}
					get(x.X.Name).Idx = append(get(x.X.Name).Idx, idx)
					continue
				}
			}
			return nil, fmt.Errorf("modifies: unsupported form %s", m.Src)
		case "field":
			base, err := env.Eval(x.X)
			if err != nil {
				return nil, err
			}
			obj, path, _ := types.LookupFieldOrMethod(base.T, true, enc.tpkg, x.Name)
			if obj == nil || len(path) == 0 {
				return nil, fmt.Errorf("modifies: no field %s", m.Src)
			}
			cur, T := base, base.T
			for i, idx := range path {
				p, ok := T.Underlying().(*types.Pointer)
				if !ok {
					return nil, fmt.Errorf("modifies: %s is not reached through pointers", m.Src)
				}
				c := enc.fieldComp(p.Elem(), idx)
				if i == len(path)-1 {
					get(c.Name).Idx = append(get(c.Name).Idx, cur)
				} else {
					cur = Select(env.comp(c.Name), cur)
					T = p.Elem().Underlying().(*types.Struct).Field(idx).Type()
				}
			}
		case "deref":
			pt, err := env.Eval(x.X)
			if err != nil {
				return nil, err
			}
			ptr, ok := under(pt.T).(*types.Pointer)
			if !ok {
				return nil, fmt.Errorf("modifies: cannot dereference %s", m.Src)
			}
			c := enc.derefComp(ptr.Elem())
			get(c.Name).Idx = append(get(c.Name).Idx, pt)
		case "call":
			switch x.Name {
			case "mapof":
				mref, err := env.Eval(x.Args[0])
				if err != nil {
					return nil, err
				}
				mt, ok := under(mref.T).(*types.Map)
				if !ok {
					return nil, fmt.Errorf("modifies: %s is not a map", m.Src)
				}
				c := enc.mapComp(mt)
				get(c.Name).Idx = append(get(c.Name).Idx, mref)
			case "cells", "tail":
				sl, err := env.Eval(x.Args[0])
				if err != nil {
					return nil, err
				}
				es, _ := env.elemType(sl)
				c := enc.cellsComp(es)
				cr := CellReg{Arr: enc.Sel("sl_arr", sl)}
				if x.Name == "tail" {
					// the unused capacity behind the slice
					cr.Lo = enc.Sel("sl_len", sl)
					cr.Hi = enc.Sel("sl_cap", sl)
				}
				get(c.Name).Cells = append(get(c.Name).Cells, cr)
			case "whole":
				if x.Args[0].Kind == "ident" {
					if _, ok := enc.comps[x.Args[0].Name]; ok {
						get(x.Args[0].Name).Whole = true
						continue
					}
				}
				return nil, fmt.Errorf("modifies: whole(%s)", x.Args[0])
			default:
				return nil, fmt.Errorf("modifies: unsupported form %s", m.Src)
			}
		default:
			return nil, fmt.Errorf("modifies: unsupported form %s", m.Src)
		}
	}
	return out, nil
}

// frameFormula: "comp 'after' equals 'before' outside the region, for everything allocated at 'allocBefore'".
func (u *Unit) frameFormula(comp *Comp, before, after *Term, reg *Region, allocBefore *Term, skolem bool) *Term {
	if same(before, after) {
		return tTrue
	}
	if reg != nil && reg.Whole {
		return tTrue
	}
	mk := func(name, sort string) *Term {
		if skolem {
			return u.cx.Fresh("sk_"+name, sort)
		}
		u.cx.n++
		return V(fmt.Sprintf("q_%s_%d", name, u.cx.n), sort)
	}
	switch comp.Kind {
	case "scalar":
		if comp.Name == "alloc" {
			return tTrue
		}
		return Eq(after, before)
	case "cells":
		a, j := mk("a", SInt), mk("j", SInt)
		cond := []*Term{Ge(a, IntLit(0)), Le(a, allocBefore)}
		if reg != nil {
			for _, c := range reg.Cells {
				if c.Lo == nil {
					cond = append(cond, Neq(a, c.Arr))
				} else {
					cond = append(cond, Not(And(Eq(a, c.Arr), Ge(j, c.Lo), Lt(j, c.Hi))))
				}
			}
		}
		body := Imp(And(cond...), Eq(Select(Select(after, a), j), Select(Select(before, a), j)))
		if skolem {
			return body
		}
		return Forall([]*Term{a, j}, body, []*Term{Select(Select(after, a), j)})
	default:
		r := mk("r", SInt)
		cond := []*Term{Ge(r, IntLit(0)), Le(r, allocBefore)}
		if reg != nil {
			for _, ix := range reg.Idx {
				cond = append(cond, Neq(r, ix))
			}
		}
		body := Imp(And(cond...), Eq(Select(after, r), Select(before, r)))
		if skolem {
			return body
		}
		return Forall([]*Term{r}, body, []*Term{Select(after, r)})
	}
}

// refInvariant: the encoding invariant "every reference stored in the heap is allocated" for one
// component value (nil when the component holds no references).
func (u *Unit) refInvariant(cn string, val, alloc *Term) *Term {
	enc := u.v.enc
	comp := enc.comps[cn]
	if comp != nil && comp.Kind == "map" {
		// reference 0 is the nil map, which reads as empty and is never written
		return Eq(Select(val, IntLit(0)), enc.EmptyMap(comp.Elem))
	}
	if comp == nil || comp.ElemT == nil || (comp.Kind != "field" && comp.Kind != "deref") {
		return nil
	}
	u.cx.n++
	r := V(fmt.Sprintf("q_r_%d", u.cx.n), SInt)
	x := Select(val, r)
	switch comp.ElemT.Underlying().(type) {
	case *types.Pointer, *types.Map:
		return Forall([]*Term{r}, And(Ge(x, IntLit(0)), Le(x, alloc)), []*Term{x})
	case *types.Slice:
		if comp.Elem != "Slice" {
			return nil
		}
		return Forall([]*Term{r}, And(Ge(enc.Sel("sl_arr", x), IntLit(0)), Le(enc.Sel("sl_arr", x), alloc), Eq(enc.Sel("sl_off", x), IntLit(0)),
			Ge(enc.Sel("sl_len", x), IntLit(0)), Le(enc.Sel("sl_len", x), enc.Sel("sl_cap", x))), []*Term{x})
	}
	return nil
}

// ---- function entry / return ----

func (u *Unit) clauseEnv(p *Path, fromIface bool, args, results []*Term, old *State) *Env {
	vars := u.v.contractVars(u.fn, u.bc.iface, fromIface, args, results)
	env := &Env{cx: u.cx, st: p.st, old: old, vars: vars, epochSt: u.cx.snapshotIfChanged(p.st), epochSplit: true, epochOld: u.cx.snapshotIfChanged(old)}
	if !fromIface {
		env.contract = u.bc.own
	}
	return env
}

func (u *Unit) atReturn(p *Path, results []*Term) {
	enc := u.v.enc
	for _, c := range u.bc.Ensures {
		env := u.clauseEnv(p, c.FromIface, u.paramList, results, u.entry)
		g, err := env.EvalBool(c.Expr)
		if err != nil {
			u.fail("ensures %s: %v", c.Label, err)
		}
		if c.Free {
			continue
		}
		o := u.ob("post."+c.Label, "post", c.Props, c.Src)
		o.Unfold = c.Unfold
		u.check(p, o, g)
	}
	// frame
	regs, err := u.evalModifies(u.bc.Modifies, func(fromIface bool) *Env {
		e := u.clauseEnv(p, fromIface, u.paramList, nil, u.entry)
		e.st = u.entry
		return e
	})
	if err != nil {
		u.fail("%v", err)
	}
	for _, cn := range enc.compList {
		before, after := u.entry.Get(u.cx, cn), p.st.Get(u.cx, cn)
		if same(before, after) {
			continue
		}
		o := u.ob("frame."+cn, "frame", []string{"C08", "C09"}, "only the declared region of "+cn+" changes")
		if u.cx.pristine(after, before) {
			// only fresh indices were written and every havoc in between carried a full frame:
			// the frame holds by construction of the symbolic state
			u.check(p, o, tTrue)
			continue
		}
		f := u.frameFormula(enc.comps[cn], before, after, regs[cn], u.entry.Get(u.cx, "alloc"), true)
		if f.IsTrue() {
			continue
		}
		u.check(p, o, f)
	}
	u.cover(p, "return")
}

func (u *Unit) cover(p *Path, what string) {
	q := &Query{Assumes: append([]*Term(nil), p.assumes...), Goal: tFalse, Path: pathDesc(p) + ":" + what, Cover: true, Cx: u.cx}
	u.covers = append(u.covers, q)
}

func (u *Unit) atPanic(p *Path, x *ssa.Panic) {
	name := u.siteName(x, "panic")
	o := u.ob(name, "safe", nil, "explicit panic is unreachable under the precondition")
	if len(u.bc.Panics) == 0 {
		u.check(p, o, tFalse)
		return
	}
	// a panic is allowed exactly when one of the 'panics' clauses (over the pre-state) holds
	var allowed []*Term
	for _, c := range u.bc.Panics {
		env := u.clauseEnv(p, c.FromIface, u.paramList, nil, u.entry)
		env.st = p.st
		for k, v := range u.envVars(p) {
			if _, shadow := env.vars[k]; !shadow {
				env.vars[k] = v
			}
		}
		g, err := env.EvalBool(c.Expr)
		if err != nil {
			u.fail("panics %s: %v", c.Label, err)
		}
		allowed = append(allowed, g)
		o.Props = append(o.Props, c.Props...)
	}
	u.check(p, o, Or(allowed...))
}

func (u *Unit) inlinedPanic(p *Path, x *ssa.Panic) {
	o := u.ob(u.siteName(x, "panic"), "safe", nil, "explicit panic in an inlined callee is unreachable")
	u.check(p, o, tFalse)
}

var dbgHook func(p *Path, where string)

// ---- loops ----

func (u *Unit) findLoops() {
	u.loops = map[*ssa.BasicBlock]int{}
	u.loopBody = map[*ssa.BasicBlock]map[*ssa.BasicBlock]bool{}
	var heads []*ssa.BasicBlock
	for _, b := range u.fn.Blocks {
		for _, s := range b.Succs {
			if s.Dominates(b) {
				if _, ok := u.loopBody[s]; !ok {
					u.loopBody[s] = map[*ssa.BasicBlock]bool{s: true}
					heads = append(heads, s)
				}
				// natural loop of back edge b->s
				var stack []*ssa.BasicBlock
				if !u.loopBody[s][b] {
					u.loopBody[s][b] = true
					stack = append(stack, b)
				}
				for len(stack) > 0 {
					n := stack[len(stack)-1]
					stack = stack[:len(stack)-1]
					for _, pr := range n.Preds {
						if !u.loopBody[s][pr] {
							u.loopBody[s][pr] = true
							stack = append(stack, pr)
						}
					}
				}
			}
		}
	}
	// ordinal = source order of the loop statement; block index order follows source order
	for i := range heads {
		for j := i + 1; j < len(heads); j++ {
			if heads[j].Index < heads[i].Index {
				heads[i], heads[j] = heads[j], heads[i]
			}
		}
	}
	for i, h := range heads {
		u.loops[h] = i + 1
	}
}

// loopWrites: heap components and locals that the loop body may write.
func (u *Unit) loopWrites(h *ssa.BasicBlock) (map[string]bool, map[*ssa.Alloc]bool) {
	comps := map[string]bool{}
	locals := map[*ssa.Alloc]bool{}
	tmp := &ssa.Function{}
	_ = tmp
	for b := range u.loopBody[h] {
		for _, in := range b.Instrs {
			switch x := in.(type) {
			case *ssa.Store:
				if a, ok := rootOf(x.Addr).(*ssa.Alloc); ok && !a.Heap {
					if _, isIdx := x.Addr.(*ssa.IndexAddr); !isIdx {
						locals[a] = true
					}
				}
			case ssa.CallInstruction:
				// a variable represented as a local although its address is passed to calls (strings.Builder,
				// see execAlloc) is written by any call that receives the address
				for _, arg := range x.Common().Args {
					if a, ok := arg.(*ssa.Alloc); ok {
						locals[a] = true
					}
				}
			}
		}
	}
	// reuse the effects analysis on the loop body only
	e := u.v.eff.bodyEffects(u.fn, u.loopBody[h])
	for c := range e.W {
		comps[c] = true
	}
	for c := range e.A {
		comps[c] = true
	}
	if e.Allocs {
		comps["alloc"] = true
	}
	return comps, locals
}

func (u *Unit) invEnv(p *Path, h *ssa.BasicBlock) *Env {
	vars := u.envVars(p)
	// ghost names for range loops
	for _, in := range h.Instrs {
		switch x := in.(type) {
		case *ssa.Phi:
			if x.Comment == "rangeindex" {
				if t, ok := p.vals[x]; ok {
					vars["$i"] = Add(t, IntLit(1))
				}
			} else if x == u.counterPhi(h) {
				// `for i := 0; ...; i++`: the counter is the number of completed iterations, like $i of a range loop
				if t, ok := p.vals[x]; ok {
					if _, has := vars["$i"]; !has {
						vars["$i"] = t
					}
				}
			}
		case *ssa.Next:
			if it := p.iters[x.Iter]; it != nil {
				vars["$i"] = it.i
				vars["$n"] = it.n
				vars["$ks"] = it.ks
				vars["$idx"] = it.idx
				vars["$m"] = it.mv.WithT(mapValT{it.mt})
			}
		}
	}
	env := &Env{cx: u.cx, st: p.st, old: u.entry, vars: vars, epochSt: u.cx.snapshotIfChanged(p.st), epochSplit: true, contract: u.bc.own, prefer: map[string]bool{}}
	for _, in := range h.Instrs {
		if phi, ok := in.(*ssa.Phi); ok && phi.Comment != "" {
			env.prefer[phi.Comment] = true
		}
	}
	if p.loopEntry != nil {
		env.loopEntry = p.loopEntry[u.loops[h]]
	}
	return env
}

// atLoopHead handles arrival at a loop header; returns false when the path ends here.
func (u *Unit) atLoopHead(p *Path, h, pred *ssa.BasicBlock, ord int, back bool) bool {
	enc := u.v.enc
	invs := u.bc.own.Invs[ord]
	// bind phis from the incoming edge so that invariants can be evaluated
	u.evalPhis(p, h, pred, nil)
	if !back {
		if p.loopEntry == nil {
			p.loopEntry = map[int]*State{}
		}
		p.loopEntry[ord] = p.st.Clone()
	}
	if dbgHook != nil {
		dbgHook(p, fmt.Sprintf("loop %d head", ord))
	}
	env := u.invEnv(p, h)
	stage := "entry"
	if back {
		stage = "step"
	}
	// invariants are checked in order; each may rely on the ones before it (sequential conjunction)
	saved := len(p.assumes)
	for _, c := range invs {
		if (c.EntryOnly && back) || c.AtExit {
			continue
		}
		g, err := env.EvalBool(c.Expr)
		if err != nil {
			u.fail("loop %d invariant %s: %v", ord, c.Label, err)
		}
		if !c.Free {
			o := u.ob(fmt.Sprintf("inv%d.%s.%s", ord, c.Label, stage), "inv", c.Props, c.Src)
			o.Unfold = c.Unfold
			u.check(p, o, g)
		}
		p.assume(g)
	}
	p.assumes = p.assumes[:saved]
	// automatic invariants: range index bounds
	for _, in := range h.Instrs {
		if phi, ok := in.(*ssa.Phi); ok && phi.Comment == "rangeindex" {
			o := u.ob(fmt.Sprintf("inv%d.auto-index.%s", ord, stage), "inv", nil, "range index >= -1")
			u.check(p, o, Ge(p.vals[phi], IntLit(-1)))
		} else if ok && phi == u.counterPhi(h) {
			o := u.ob(fmt.Sprintf("inv%d.auto-index.%s", ord, stage), "inv", nil, "loop counter >= 0")
			u.check(p, o, Ge(p.vals[phi], IntLit(0)))
		}
	}
	// automatic invariant: the function's frame holds at the loop head
	regs, err := u.evalModifies(u.bc.Modifies, func(fromIface bool) *Env {
		e := u.clauseEnv(p, fromIface, u.paramList, nil, u.entry)
		e.st = u.entry
		return e
	})
	if err != nil {
		u.fail("%v", err)
	}
	wcomps, wlocals := u.loopWrites(h)
	if back {
		for _, cn := range sortedKeys(wcomps) {
			comp := enc.comps[cn]
			if comp.Kind == "scalar" && cn == "alloc" {
				continue
			}
			if u.cx.pristine(p.st.Get(u.cx, cn), u.entry.Get(u.cx, cn)) {
				continue
			}
			f := u.frameFormula(comp, u.entry.Get(u.cx, cn), p.st.Get(u.cx, cn), regs[cn], u.entry.Get(u.cx, "alloc"), true)
			if f.IsTrue() {
				continue
			}
			o := u.ob(fmt.Sprintf("inv%d.auto-frame.%s", ord, cn), "inv", nil, "frame of "+cn+" holds at the loop head")
			u.check(p, o, f)
		}
		u.cover(p, fmt.Sprintf("loop%d-backedge", ord))
		return false
	}
	// entering the loop from outside: havoc and assume
	allocBefore := p.st.Get(u.cx, "alloc")
	if u.bc.own.CutLoops[ord] && u.baseAssumes <= len(p.assumes) {
		// cut point: only the precondition, the function's frame and the invariants are known inside
		// and after this loop. The frame of every component changed so far is checked here, then the
		// component is abstracted to a fresh value that satisfies it.
		type cutc struct {
			cn   string
			comp *Comp
		}
		var changed []cutc
		for _, cn := range enc.compList {
			comp := enc.comps[cn]
			if cn == "alloc" || wcomps[cn] || same(u.entry.Get(u.cx, cn), p.st.Get(u.cx, cn)) {
				continue
			}
			f := u.frameFormula(comp, u.entry.Get(u.cx, cn), p.st.Get(u.cx, cn), regs[cn], u.entry.Get(u.cx, "alloc"), true)
			if !f.IsTrue() {
				o := u.ob(fmt.Sprintf("inv%d.cut-frame.%s", ord, cn), "inv", nil, "frame of "+cn+" holds when the loop is entered")
				u.check(p, o, f)
			}
			changed = append(changed, cutc{cn, comp})
		}
		p.assumes = append([]*Term(nil), p.assumes[:u.baseAssumes]...)
		p.assume(Ge(allocBefore, u.entry.Get(u.cx, "alloc")))
		p.localFacts = nil
		// the enumeration this loop iterates over stays known
		for _, in := range h.Instrs {
			if nx, ok := in.(*ssa.Next); ok {
				if it := p.iters[nx.Iter]; it != nil {
					for _, f := range it.facts {
						p.assume(f)
					}
				}
			}
		}
		// user invariants were checked above against the precise state; they are re-assumed below
		// against the abstracted one, so abstract only what no invariant needs precisely: nothing is
		// abstracted if an invariant mentions the component (conservative: keep the precise term).
		for _, c := range changed {
			p.assume(u.frameFormula(c.comp, u.entry.Get(u.cx, c.cn), p.st.Get(u.cx, c.cn), regs[c.cn], u.entry.Get(u.cx, "alloc"), false))
		}
	}
	for _, cn := range sortedKeys(wcomps) {
		comp := enc.comps[cn]
		nv := u.cx.Fresh(cn+"@loop", comp.Sort)
		if u.cx.frameInfo == nil {
			u.cx.frameInfo = map[string]frameInfo{}
		}
		if rg := regs[cn]; cn != "alloc" {
			u.cx.frameInfo[nv.Op] = frameInfo{base: u.entry.Get(u.cx, cn), hasRegion: rg != nil && (rg.Whole || len(rg.Idx) > 0 || len(rg.Cells) > 0)}
		}
		p.st.comps[cn] = nv
		if cn == "alloc" {
			p.assume(Ge(nv, allocBefore))
			continue
		}
		p.assume(u.frameFormula(comp, u.entry.Get(u.cx, cn), nv, regs[cn], u.entry.Get(u.cx, "alloc"), false))
		if inv := u.refInvariant(cn, nv, p.st.Get(u.cx, "alloc")); inv != nil {
			p.assume(inv)
		}
	}
	for a := range wlocals {
		if old, ok := p.locals[a]; ok {
			p.locals[a] = u.cx.Fresh("local_"+a.Comment, old.Sort)
		}
	}
	fresh := map[*ssa.Phi]*Term{}
	for _, in := range h.Instrs {
		phi, ok := in.(*ssa.Phi)
		if !ok {
			break
		}
		fresh[phi] = u.cx.Fresh(phi.Comment+"_"+phi.Name(), enc.SortOf(phi.Type())).WithT(phi.Type())
	}
	u.evalPhis(p, h, pred, fresh)
	for _, t := range fresh {
		u.assumeWF(p, t, t.T)
	}
	for _, in := range h.Instrs {
		switch x := in.(type) {
		case *ssa.Phi:
			if x.Comment == "rangeindex" {
				p.assume(Ge(p.vals[x], IntLit(-1)))
			} else if x == u.counterPhi(h) {
				p.assume(Ge(p.vals[x], IntLit(0)))
			}
		case *ssa.Next:
			if it := p.iters[x.Iter]; it != nil {
				ni := u.cx.Fresh("iter", SInt)
				p.assume(And(Ge(ni, IntLit(0)), Le(ni, it.n)))
				it.i = ni
			}
		}
	}
	p.knownNN = map[string]bool{}
	env = u.invEnv(p, h)
	for _, c := range invs {
		if c.EntryOnly || c.AtExit {
			continue
		}
		g, err := env.EvalBool(c.Expr)
		if err != nil {
			u.fail("loop %d invariant %s: %v", ord, c.Label, err)
		}
		p.assume(g)
		if c.Local && !g.IsTrue() {
			if p.localFacts == nil {
				p.localFacts = map[int][]*Term{}
			}
			p.localFacts[ord] = append(p.localFacts[ord], g)
		}
	}
	return true
}

// bodyEffects computes direct+transitive effects of a subset of blocks.
func (db *EffectsDB) bodyEffects(f *ssa.Function, blocks map[*ssa.BasicBlock]bool) *Effects {
	sub := &ssa.Function{}
	_ = sub
	e := &Effects{W: map[string]bool{}, A: map[string]bool{}}
	full := db.directBlocks(f, blocks)
	merge(e, full)
	for b := range blocks {
		for _, in := range b.Instrs {
			call, ok := in.(ssa.CallInstruction)
			if !ok {
				continue
			}
			cc := call.Common()
			if cc.IsInvoke() {
				for _, impl := range db.impl[ifaceKey(cc)] {
					merge(e, db.fns[impl])
				}
				continue
			}
			switch callee := cc.Value.(type) {
			case *ssa.Function:
				if ce, ok := db.fns[callee]; ok {
					merge(e, ce)
				}
			case *ssa.Builtin:
			default:
				merge(e, db.api)
			}
		}
	}
	return e
}

func (db *EffectsDB) directBlocks(f *ssa.Function, blocks map[*ssa.BasicBlock]bool) *Effects {
	// run the direct analysis on a filtered view
	saved := f.Blocks
	var sel []*ssa.BasicBlock
	for _, b := range saved {
		if blocks[b] {
			sel = append(sel, b)
		}
	}
	f.Blocks = sel
	e := db.direct(f)
	f.Blocks = saved
	return e
}

func describeTerm(t *Term) string {
	s := t.String()
	if len(s) > 200 {
		s = s[:200] + "..."
	}
	return strings.ReplaceAll(s, "\n", " ")
}

// counterPhi finds the counter of a loop written `for i := 0; ...; i++`: the only integer phi at the loop
// head that is 0 on the edge entering the loop and itself plus 1 on every edge from the loop body.
func (u *Unit) counterPhi(h *ssa.BasicBlock) *ssa.Phi {
	var found *ssa.Phi
	for _, in := range h.Instrs {
		phi, ok := in.(*ssa.Phi)
		if !ok {
			break
		}
		if b, isB := phi.Type().Underlying().(*types.Basic); !isB || b.Info()&types.IsInteger == 0 || phi.Comment == "rangeindex" {
			continue
		}
		good, sawInit, sawStep := true, false, false
		for i, e := range phi.Edges {
			pred := h.Preds[i]
			if u.loopBody[h][pred] {
				bo, ok := e.(*ssa.BinOp)
				if !ok || bo.Op != token.ADD || bo.X != ssa.Value(phi) {
					good = false
					break
				}
				c, ok := bo.Y.(*ssa.Const)
				if !ok || c.Value == nil || c.Value.ExactString() != "1" {
					good = false
					break
				}
				sawStep = true
			} else {
				c, ok := e.(*ssa.Const)
				if !ok || c.Value == nil || c.Value.ExactString() != "0" {
					good = false
					break
				}
				sawInit = true
			}
		}
		if good && sawInit && sawStep {
			if found != nil {
				return nil
			}
			found = phi
		}
	}
	return found
}
