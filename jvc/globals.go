package main

import (
	"fmt"
	"go/ast"
	"go/constant"
	"go/types"

	"golang.org/x/tools/go/packages"
	"golang.org/x/tools/go/ssa"
)

// GlobalTables holds the ground contents of package-level tables, read from their initialisers.
// The whole-package scan (pkg#global-write-free) guarantees they are never written after init.
type GlobalTables struct {
	strSlices map[string][]string          // var name -> elements
	strMaps   map[string]map[string]string // var name -> entries
}

func stringConst(c *ssa.Const) (string, bool) {
	if c.Value != nil && c.Value.Kind() == constant.String {
		return constant.StringVal(c.Value), true
	}
	return "", false
}

func LoadGlobalTables(pkg *packages.Package) *GlobalTables {
	g := &GlobalTables{strSlices: map[string][]string{}, strMaps: map[string]map[string]string{}}
	for _, f := range pkg.Syntax {
		for _, d := range f.Decls {
			gd, ok := d.(*ast.GenDecl)
			if !ok {
				continue
			}
			for _, s := range gd.Specs {
				vs, ok := s.(*ast.ValueSpec)
				if !ok || len(vs.Names) != 1 || len(vs.Values) != 1 {
					continue
				}
				cl, ok := vs.Values[0].(*ast.CompositeLit)
				if !ok {
					continue
				}
				name := vs.Names[0].Name
				T := pkg.TypesInfo.TypeOf(cl)
				constStr := func(e ast.Expr) (string, bool) {
					tv, ok := pkg.TypesInfo.Types[e]
					if !ok || tv.Value == nil || tv.Value.Kind() != constant.String {
						return "", false
					}
					return constant.StringVal(tv.Value), true
				}
				switch ut := T.Underlying().(type) {
				case *types.Slice:
					if b, ok := ut.Elem().Underlying().(*types.Basic); !ok || b.Kind() != types.String {
						continue
					}
					var elems []string
					good := true
					for _, e := range cl.Elts {
						s, ok := constStr(e)
						if !ok {
							good = false
							break
						}
						elems = append(elems, s)
					}
					if good {
						g.strSlices[name] = elems
					}
				case *types.Map:
					m := map[string]string{}
					good := true
					for _, e := range cl.Elts {
						kv, ok := e.(*ast.KeyValueExpr)
						if !ok {
							good = false
							break
						}
						k, ok1 := constStr(kv.Key)
						v, ok2 := constStr(kv.Value)
						if !ok1 || !ok2 {
							good = false
							break
						}
						m[k] = v
					}
					if good {
						g.strMaps[name] = m
					}
				}
			}
		}
	}
	return g
}

// load returns the value of *glob and, once per unit, assumes its ground contents in the entry state.
func (g *GlobalTables) load(u *Unit, p *Path, glob *ssa.Global) *Term {
	enc := u.v.enc
	name := glob.Name()
	T := glob.Type().(*types.Pointer).Elem()
	if elems, ok := g.strSlices[name]; ok {
		arr := u.cx.Named("g_"+name+"_arr", SInt)
		n := int64(len(elems))
		sl := enc.Mk("mk_Slice", arr, IntLit(0), IntLit(n), IntLit(n)).WithT(T)
		if !u.globalsAssumed[name] {
			u.globalsAssumed[name] = true
			cells := u.entry.Get(u.cx, enc.cellsComp(SStr).Name)
			facts := []*Term{Gt(arr, IntLit(0)), Le(arr, u.entry.Get(u.cx, "alloc"))}
			a := Select(cells, arr)
			for i, e := range elems {
				facts = append(facts, Eq(Select(a, IntLit(int64(i))), StrLit(e)))
			}
			u.globalFacts = append(u.globalFacts, facts...)
		}
		// globals are read-only: the current heap agrees with the entry heap on them
		cur := p.st.Get(u.cx, enc.cellsComp(SStr).Name)
		ent := u.entry.Get(u.cx, enc.cellsComp(SStr).Name)
		if !same(cur, ent) {
			p.assume(Eq(Select(cur, arr), Select(ent, arr)))
		}
		return sl
	}
	if m, ok := g.strMaps[name]; ok {
		ref := u.cx.Named("g_"+name, SInt)
		mt := T.Underlying().(*types.Map)
		c := enc.mapComp(mt)
		if !u.globalsAssumed[name] {
			u.globalsAssumed[name] = true
			// The contents of a table map are kept opaque in function VCs (only the looked-up entry matters there);
			// its ground contents are checked by the table obligations. Absent keys read as "".
			_ = m
			mv := Select(u.entry.Get(u.cx, c.Name), ref)
			u.cx.n++
			k := V(fmt.Sprintf("q_k_%d", u.cx.n), SStr)
			u.globalFacts = append(u.globalFacts, Gt(ref, IntLit(0)), Le(ref, u.entry.Get(u.cx, "alloc")),
				Forall([]*Term{k}, Imp(Not(Select(enc.MapDom(mv), k)), Eq(Select(enc.MapVal(mv), k), StrLit(""))), []*Term{Select(enc.MapVal(mv), k)}))
		}
		cur := p.st.Get(u.cx, c.Name)
		ent := u.entry.Get(u.cx, c.Name)
		if !same(cur, ent) {
			p.assume(Eq(Select(cur, ref), Select(ent, ref)))
		}
		return ref.WithT(T)
	}
	if glob.Pkg != u.v.enc.pkg {
		// a variable of another package (io.ErrShortWrite, ...): an opaque value; error sentinels are non-nil
		c := u.cx.Named("g_"+mangle(glob.Pkg.Pkg.Path())+"_"+name, enc.SortOf(T)).WithT(T)
		if types.Identical(T, errType) && !u.globalsAssumed["ext:"+name] {
			u.globalsAssumed["ext:"+name] = true
			u.globalFacts = append(u.globalFacts, Gt(c, IntLit(0)))
		}
		u.noteUnmodelled("value of " + glob.Pkg.Pkg.Path() + "." + name + " is opaque")
		return c
	}
	u.fail("read of package-level variable %s, whose initialiser is not a ground table", name)
	return nil
}

func (g *GlobalTables) describe() string {
	return fmt.Sprintf("%d string slices, %d string maps", len(g.strSlices), len(g.strMaps))
}
