package main

import (
	"bytes"
	"context"
	"fmt"
	"os"
	"os/exec"
	"path/filepath"
	"strings"
	"sync"
	"time"
)

type SolverOpts struct {
	WorkDir   string
	TimeoutS  int
	Seed      int
	Confirm   bool // thorough: confirm unsat with a second solver
	Models    bool
	Parallel  int
}

// relevantAxioms selects prelude axioms that share an uninterpreted symbol with the query (fixpoint).
func (cx *Ctx) relevantAxioms(syms map[string]bool) ([]*Term, []string, error) {
	type ax struct {
		t    *Term
		syms map[string]bool
		name string
	}
	var all []ax
	for _, a := range cx.spec.axioms {
		env := &Env{cx: cx, st: cx.tree, vars: map[string]*Term{}}
		t, err := env.EvalBool(a.Body)
		if err != nil {
			return nil, nil, fmt.Errorf("axiom %s: %v", a.Name, err)
		}
		s := map[string]bool{}
		collectSyms(t, map[string]bool{}, s)
		all = append(all, ax{t, s, a.Name})
	}
	used := make([]bool, len(all))
	var out []*Term
	var names []string
	for changed := true; changed; {
		changed = false
		for i, a := range all {
			if used[i] {
				continue
			}
			hit := false
			for s := range a.syms {
				if _, isFun := cx.enc.funs[s]; isFun && syms[s] {
					hit = true
					break
				}
			}
			if hit {
				used[i] = true
				changed = true
				out = append(out, a.t)
				names = append(names, a.name)
				for s := range a.syms {
					syms[s] = true
				}
			}
		}
	}
	return out, names, nil
}

// BuildSMT renders a query as an SMT-LIB2 script.
func (q *Query) BuildSMT(fuel int, extra []*Term, globalFacts []*Term) (string, error) {
	cx := q.Cx
	var asserts []*Term
	asserts = append(asserts, globalFacts...)
	asserts = append(asserts, q.Assumes...)
	asserts = append(asserts, extra...)
	neg := Not(q.Goal)
	all := append(append([]*Term(nil), asserts...), neg)
	if cx.fuel > 0 {
		fuel = cx.fuel
	}
	eqs, err := cx.unfoldRecDefs(all, fuel)
	if err != nil {
		return "", err
	}
	syms := map[string]bool{}
	for _, t := range all {
		collectSyms(t, map[string]bool{}, syms)
	}
	for _, t := range eqs {
		collectSyms(t, map[string]bool{}, syms)
	}
	axs, axNames, err := cx.relevantAxioms(syms)
	if err != nil {
		return "", err
	}
	// axioms may mention recursive definitions too
	eqs2, err := cx.unfoldRecDefs(axs, 1)
	if err != nil {
		return "", err
	}
	for _, t := range eqs2 {
		collectSyms(t, map[string]bool{}, syms)
	}
	var b strings.Builder
	b.WriteString("(set-option :produce-models true)\n(set-logic ALL)\n")
	b.WriteString(cx.enc.Preamble())
	for _, n := range cx.order {
		if syms[n] {
			fmt.Fprintf(&b, "(declare-const %s %s)\n", quoteSym(n), cx.consts[n])
		}
	}
	for i, a := range axs {
		fmt.Fprintf(&b, "; axiom %s\n(assert %s)\n", axNames[i], a)
	}
	for _, e := range eqs {
		fmt.Fprintf(&b, "; unfolding\n(assert %s)\n", e)
	}
	for _, e := range eqs2 {
		fmt.Fprintf(&b, "; unfolding (axiom)\n(assert %s)\n", e)
	}
	for _, a := range asserts {
		fmt.Fprintf(&b, "(assert %s)\n", a)
	}
	if q.Cover {
		b.WriteString("; cover: the path must be satisfiable\n")
	} else {
		fmt.Fprintf(&b, "; goal: %s\n(assert %s)\n", q.Ob.Name, neg)
	}
	b.WriteString("(check-sat)\n")
	s := b.String()
	// constants with '!' or '@' need quoting
	return s, nil
}

func quoteSym(n string) string {
	return n
}

type solverSpec struct {
	name string
	args func(file string, timeoutS, seed int) []string
}

var solvers = []solverSpec{
	{"z3-new", func(f string, t, seed int) []string {
		return []string{"z3-new", fmt.Sprintf("-T:%d", t), fmt.Sprintf("smt.random_seed=%d", seed), fmt.Sprintf("sat.random_seed=%d", seed), f}
	}},
	{"z3", func(f string, t, seed int) []string {
		return []string{"z3", fmt.Sprintf("-T:%d", t), fmt.Sprintf("smt.random_seed=%d", seed), fmt.Sprintf("sat.random_seed=%d", seed), f}
	}},
	{"cvc5", func(f string, t, seed int) []string {
		return []string{"cvc5", "--strings-exp", fmt.Sprintf("--tlimit=%d", t*1000), fmt.Sprintf("--seed=%d", seed), f}
	}},
}

func runSolver(ctx context.Context, sp solverSpec, file string, timeoutS, seed int) (string, string) {
	args := sp.args(file, timeoutS, seed)
	cctx, cancel := context.WithTimeout(ctx, time.Duration(timeoutS+2)*time.Second)
	defer cancel()
	cmd := exec.CommandContext(cctx, args[0], args[1:]...)
	var out bytes.Buffer
	cmd.Stdout = &out
	cmd.Stderr = &out
	_ = cmd.Run()
	txt := out.String()
	first := strings.TrimSpace(strings.SplitN(txt, "\n", 2)[0])
	switch first {
	case "unsat", "sat", "unknown":
		return first, txt
	case "timeout":
		return "timeout", txt
	}
	if strings.HasPrefix(first, "(error") {
		return "error", txt
	}
	if cctx.Err() != nil {
		return "timeout", txt
	}
	if strings.Contains(txt, "timeout") {
		return "timeout", txt
	}
	return "error", txt
}

// Solve races the solvers on one query file.
func Solve(file string, opts SolverOpts, cover bool) (result, solver, output string, millis int64, agreed []string) {
	start := time.Now()
	if cover {
		// vacuity guard: only a definite 'unsat' matters; one solver, short budget
		r, out := runSolver(context.Background(), solvers[0], file, 1, opts.Seed)
		return r, solvers[0].name, out, time.Since(start).Milliseconds(), nil
	}
	// stage 1: z3-new alone, short
	short := 3
	if opts.TimeoutS < short {
		short = opts.TimeoutS
	}
	r, out := runSolver(context.Background(), solvers[0], file, short, opts.Seed)
	if r == "unsat" || r == "sat" {
		result, solver, output = r, solvers[0].name, out
	} else {
		// stage 2: race all three with the full timeout
		ctx, cancel := context.WithCancel(context.Background())
		type res struct{ r, out, name string }
		ch := make(chan res, len(solvers))
		for _, sp := range solvers {
			sp := sp
			go func() {
				r, out := runSolver(ctx, sp, file, opts.TimeoutS, opts.Seed)
				ch <- res{r, out, sp.name}
			}()
		}
		result, solver, output = "unknown", "", ""
		var errs []string
		for i := 0; i < len(solvers); i++ {
			x := <-ch
			if x.r == "unsat" || x.r == "sat" {
				result, solver, output = x.r, x.name, x.out
				break
			}
			if x.r == "timeout" && result == "unknown" {
				result = "timeout"
			}
			if x.r == "error" {
				errs = append(errs, x.name+": "+firstLines(x.out, 3))
			}
			output += x.name + ": " + x.r + "\n"
		}
		cancel()
		if solver == "" && len(errs) == len(solvers) {
			result = "error"
			output = strings.Join(errs, "\n")
		}
	}
	if opts.Confirm && result == "unsat" {
		for _, sp := range solvers {
			if sp.name == solver {
				continue
			}
			r2, _ := runSolver(context.Background(), sp, file, opts.TimeoutS, opts.Seed)
			if r2 == "unsat" {
				agreed = append(agreed, sp.name)
				break
			}
			if r2 == "sat" {
				result = "error"
				output = "solver disagreement: " + solver + " says unsat, " + sp.name + " says sat"
				break
			}
		}
	}
	millis = time.Since(start).Milliseconds()
	return
}

func firstLines(s string, n int) string {
	ls := strings.Split(strings.TrimSpace(s), "\n")
	if len(ls) > n {
		ls = ls[:n]
	}
	return strings.Join(ls, " | ")
}

// getModel re-runs z3-new (then z3) on a sat query with (get-model) appended.
func getModel(file string, opts SolverOpts) string {
	b, err := os.ReadFile(file)
	if err != nil {
		return ""
	}
	mf := strings.TrimSuffix(file, ".smt2") + ".model.smt2"
	os.WriteFile(mf, append(b, []byte("(get-model)\n")...), 0644)
	defer os.Remove(mf)
	for _, sp := range solvers[:2] {
		r, out := runSolver(context.Background(), sp, mf, opts.TimeoutS, opts.Seed)
		if r == "sat" {
			return out
		}
	}
	return ""
}

// SolveAll discharges the queries in parallel.
func SolveAll(qs []*Query, fuel int, opts SolverOpts, factsOf func(q *Query) []*Term) {
	os.MkdirAll(opts.WorkDir, 0755)
	par := opts.Parallel
	if par <= 0 {
		par = 8
	}
	var wg sync.WaitGroup
	sem := make(chan struct{}, par)
	for i, q := range qs {
		if q.Result != "" {
			continue
		}
		i, q := i, q
		smt, err := q.BuildSMT(fuel, nil, factsOf(q))
		if err != nil {
			q.Result = "error"
			q.Model = err.Error()
			continue
		}
		q.SMT = smt
		wg.Add(1)
		sem <- struct{}{}
		go func() {
			defer wg.Done()
			defer func() { <-sem }()
			name := "cover"
			if q.Ob != nil {
				name = q.Ob.Name
			}
			file := filepath.Join(opts.WorkDir, fmt.Sprintf("q%05d_%s.smt2", i, mangle(name)))
			os.WriteFile(file, []byte(smt), 0644)
			q.Result, q.Solver, q.Model, q.Millis, q.Agreed = Solve(file, opts, q.Cover)
			if q.Result == "sat" && !q.Cover && opts.Models {
				q.Model = getModel(file, opts)
			}
			if os.Getenv("JVC_KEEP") == "" {
				os.Remove(file)
			} else {
				q.SMT = file
			}
		}()
	}
	wg.Wait()
}
