package main

import (
	"bytes"
	"context"
	"fmt"
	"os"
	"os/exec"
	"path/filepath"
	"sort"
	"strings"
	"sync"
	"time"
)

type SolverOpts struct {
	WorkDir  string
	TimeoutS int
	Seed     int
	Confirm  bool // thorough: confirm unsat with a second solver
	Models   bool
	Parallel int
}

// relevantAxioms selects prelude axioms that share an uninterpreted symbol with the query (fixpoint).
func (cx *Ctx) relevantAxioms(syms map[string]bool) ([]*Term, []string, error) {
	type ax struct {
		t    *Term
		syms map[string]bool
		name string
	}
	var all []ax
	for _, a := range cx.spec.axioms {
		if strings.HasPrefix(a.Name, "doc-") {
			continue // documents the meaning of a trusted function; no VC needs it
		}
		env := &Env{cx: cx, st: cx.tree, vars: map[string]*Term{}}
		t, err := env.EvalBool(a.Body)
		if err != nil {
			return nil, nil, fmt.Errorf("axiom %s: %v", a.Name, err)
		}
		s := map[string]bool{}
		collectSyms(t, map[string]bool{}, s)
		all = append(all, ax{t, s, a.Name})
	}
	used := make([]bool, len(all))
	var out []*Term
	var names []string
	for changed := true; changed; {
		changed = false
		for i, a := range all {
			if used[i] {
				continue
			}
			hit := false
			for s := range a.syms {
				if _, isFun := cx.enc.funs[s]; isFun && syms[s] {
					hit = true
					break
				}
			}
			if hit {
				used[i] = true
				changed = true
				out = append(out, a.t)
				names = append(names, a.name)
				for s := range a.syms {
					syms[s] = true
				}
			}
		}
	}
	return out, names, nil
}

// usableLemmas instantiates the 'use' lemmas of the prelude (proved separately as lemma obligations)
// as quantified facts, once per tree epoch whose recursive symbols occur in the query.
func (cx *Ctx) usableLemmas(syms map[string]bool) ([]*Term, []string, error) {
	var out []*Term
	var names []string
	epochs := []string{""}
	for e := range cx.epochs {
		epochs = append(epochs, e)
	}
	sort.Strings(epochs)
	for _, l := range cx.spec.lemmas {
		if !l.Use || l.Trigger == nil {
			continue
		}
		for _, ep := range epochs {
			st := cx.treeFor(ep)
			if st == nil {
				continue
			}
			vars := map[string]*Term{}
			var bvs []*Term
			var rerr error
			func() {
				defer func() {
					if r := recover(); r != nil {
						rerr = fmt.Errorf("lemma %s: %v", l.Name, r)
					}
				}()
				for _, qv := range l.Vars {
					s, gt := cx.ResolveType(qv.Type)
					cx.n++
					bv := V(fmt.Sprintf("q_%s_%d", qv.Name, cx.n), s)
					bv.T = gt
					vars[qv.Name] = bv
					bvs = append(bvs, bv)
				}
			}()
			if rerr != nil {
				return nil, nil, rerr
			}
			env := &Env{cx: cx, st: st, old: st, vars: vars, epochSt: st, forceEpoch: ep != ""}
			trig, err := env.Eval(l.Trigger)
			if err != nil {
				return nil, nil, fmt.Errorf("lemma %s trigger: %v", l.Name, err)
			}
			// relevant only if the trigger's head symbol occurs in the query
			if !syms[trig.Op] {
				continue
			}
			var hyps []*Term
			for _, h := range l.Hyps {
				t, err := env.EvalBool(h)
				if err != nil {
					return nil, nil, fmt.Errorf("lemma %s: %v", l.Name, err)
				}
				hyps = append(hyps, t)
			}
			goal, err := env.EvalBool(l.Body)
			if err != nil {
				return nil, nil, fmt.Errorf("lemma %s: %v", l.Name, err)
			}
			out = append(out, Forall(bvs, Imp(And(hyps...), goal), []*Term{trig}))
			names = append(names, "lemma "+l.Name+" (epoch "+ep+")")
			collectSyms(goal, map[string]bool{}, syms)
		}
	}
	return out, names, nil
}

// BuildSMT renders a query as an SMT-LIB2 script.
func (q *Query) BuildSMT(fuel int, extra []*Term, globalFacts []*Term) (string, error) {
	cx := q.Cx
	var asserts []*Term
	asserts = append(asserts, globalFacts...)
	asserts = append(asserts, q.Assumes...)
	asserts = append(asserts, extra...)
	neg := Not(q.Goal)
	all := append(append([]*Term(nil), asserts...), neg)
	if cx.fuel > 0 {
		fuel = cx.fuel
	}
	// clause-level unfold additions (restored afterwards: the context is shared by the unit's queries)
	if len(q.Unfold) > 0 {
		savedOnly, savedDepth := cx.unfoldOnly, cx.unfoldDepth
		no, nd := map[string]bool{}, map[string]int{}
		for k, v := range savedOnly {
			no[k] = v
		}
		for k, v := range savedDepth {
			nd[k] = v
		}
		for _, n := range q.Unfold {
			name, depth, has := strings.Cut(strings.Trim(n, ","), ":")
			no[name] = true
			if has {
				d := 1
				fmt.Sscan(depth, &d)
				nd[name] = d
			}
		}
		cx.unfoldOnly, cx.unfoldDepth = no, nd
		defer func() { cx.unfoldOnly, cx.unfoldDepth = savedOnly, savedDepth }()
	}
	eqs, err := cx.unfoldRecDefs(all, fuel)
	if err != nil {
		return "", err
	}
	syms := map[string]bool{}
	for _, t := range all {
		collectSyms(t, map[string]bool{}, syms)
	}
	for _, t := range eqs {
		collectSyms(t, map[string]bool{}, syms)
	}
	axs, axNames, err := cx.relevantAxioms(syms)
	if err != nil {
		return "", err
	}
	if q.Ob == nil || q.Ob.Kind != "lemma" {
		lts, lnames, err := cx.usableLemmas(syms)
		if err != nil {
			return "", err
		}
		axs = append(axs, lts...)
		axNames = append(axNames, lnames...)
	}
	// axioms may mention recursive definitions too
	eqs2, err := cx.unfoldRecDefs(axs, 1)
	if err != nil {
		return "", err
	}
	for _, t := range eqs2 {
		collectSyms(t, map[string]bool{}, syms)
	}
	var b strings.Builder
	b.WriteString("(set-option :produce-models true)\n(set-logic ALL)\n")
	b.WriteString(cx.enc.Preamble())
	for _, n := range cx.order {
		if syms[n] {
			fmt.Fprintf(&b, "(declare-const %s %s)\n", quoteSym(n), cx.consts[n])
		}
	}
	// every assertion is emitted on one line, preceded by a class comment, so that weakened
	// variants of the query can be derived by dropping classes of lines (see variants()).
	for i, a := range axs {
		fmt.Fprintf(&b, "; axiom %s\n%s(assert %s)\n", axNames[i], tagAxiom, a)
	}
	for _, e := range eqs {
		fmt.Fprintf(&b, "; unfolding\n(assert %s)\n", e)
	}
	for _, e := range eqs2 {
		fmt.Fprintf(&b, "; unfolding (axiom)\n(assert %s)\n", e)
	}
	for _, a := range asserts {
		if hasQuantifier(a) {
			fmt.Fprintf(&b, "%s(assert %s)\n", tagQuant, a)
		} else {
			fmt.Fprintf(&b, "(assert %s)\n", a)
		}
	}
	if q.Cover {
		b.WriteString("; cover: the path must be satisfiable\n")
	} else {
		fmt.Fprintf(&b, "; goal: %s\n(assert %s)\n", q.Ob.Name, neg)
	}
	b.WriteString("(check-sat)\n")
	s := b.String()
	return s, nil
}

const tagAxiom = ";#axiom\n"
const tagQuant = ";#quant\n"

func hasQuantifier(t *Term) bool {
	if t.Op == "forall" || t.Op == "exists" {
		return true
	}
	for _, a := range t.Args {
		if hasQuantifier(a) {
			return true
		}
	}
	return false
}

// variants derives sound weakenings of a query (fewer assumptions): unsat for any of them proves
// the obligation. dropAxioms removes prelude axioms and lemmas, dropQuant removes quantified path facts.
func variant(smt string, dropAxioms, dropQuant bool) string {
	lines := strings.Split(smt, "\n")
	var out []string
	for i := 0; i < len(lines); i++ {
		ln := lines[i]
		if ln == strings.TrimSuffix(tagAxiom, "\n") {
			if dropAxioms {
				i++
				continue
			}
			continue
		}
		if ln == strings.TrimSuffix(tagQuant, "\n") {
			if dropQuant {
				i++
				continue
			}
			continue
		}
		out = append(out, ln)
	}
	return strings.Join(out, "\n")
}

func quoteSym(n string) string {
	return n
}

type solverSpec struct {
	name string
	args func(file string, timeoutS, seed int) []string
}

var solvers = []solverSpec{
	{"z3-new", func(f string, t, seed int) []string {
		return []string{"z3-new", fmt.Sprintf("-T:%d", t), fmt.Sprintf("smt.random_seed=%d", seed), fmt.Sprintf("sat.random_seed=%d", seed), f}
	}},
	{"z3", func(f string, t, seed int) []string {
		return []string{"z3", fmt.Sprintf("-T:%d", t), fmt.Sprintf("smt.random_seed=%d", seed), fmt.Sprintf("sat.random_seed=%d", seed), f}
	}},
	{"cvc5", func(f string, t, seed int) []string {
		return []string{"cvc5", "--strings-exp", fmt.Sprintf("--tlimit=%d", t*1000), fmt.Sprintf("--seed=%d", seed), f}
	}},
}

func runSolver(ctx context.Context, sp solverSpec, file string, timeoutS, seed int) (string, string) {
	args := sp.args(file, timeoutS, seed)
	cctx, cancel := context.WithTimeout(ctx, time.Duration(timeoutS+2)*time.Second)
	defer cancel()
	cmd := exec.CommandContext(cctx, args[0], args[1:]...)
	var out bytes.Buffer
	cmd.Stdout = &out
	cmd.Stderr = &out
	_ = cmd.Run()
	txt := out.String()
	first := strings.TrimSpace(strings.SplitN(txt, "\n", 2)[0])
	switch first {
	case "unsat", "sat", "unknown":
		return first, txt
	case "timeout":
		return "timeout", txt
	}
	if strings.HasPrefix(first, "(error") {
		return "error", txt
	}
	if cctx.Err() != nil {
		return "timeout", txt
	}
	if strings.Contains(txt, "timeout") {
		return "timeout", txt
	}
	return "error", txt
}

// Solve races the solvers on one query file.
func Solve(file string, opts SolverOpts, cover bool) (result, solver, output string, millis int64, agreed []string) {
	start := time.Now()
	if cover {
		// vacuity guard: only a definite 'unsat' matters; one solver, short budget
		r, out := runSolver(context.Background(), solvers[0], file, opts.TimeoutS, opts.Seed)
		return r, solvers[0].name, out, time.Since(start).Milliseconds(), nil
	}
	race := func(files []string, full int, timeout int) (string, string, string) {
		ctx, cancel := context.WithCancel(context.Background())
		defer cancel()
		type res struct {
			r, out, name string
			full         bool
		}
		n := 0
		ch := make(chan res, len(solvers)*len(files))
		for fi, fl := range files {
			for _, sp := range solvers {
				sp, fl, isFull := sp, fl, fi == full
				n++
				go func() {
					r, out := runSolver(ctx, sp, fl, timeout, opts.Seed)
					name := sp.name
					if !isFull {
						name += "(weakened)"
					}
					ch <- res{r, out, name, isFull}
				}()
			}
		}
		result, solver, output := "unknown", "", ""
		var errs []string
		fullAnswers := 0
		for i := 0; i < n; i++ {
			x := <-ch
			if x.r == "unsat" || (x.r == "sat" && x.full) {
				return x.r, x.name, x.out
			}
			if !x.full {
				continue // sat/unknown on a weakened query says nothing
			}
			fullAnswers++
			if x.r == "timeout" && result == "unknown" {
				result = "timeout"
			}
			if x.r == "error" {
				errs = append(errs, x.name+": "+firstLines(x.out, 3))
			}
			output += x.name + ": " + x.r + "\n"
		}
		if len(errs) == len(solvers) {
			return "error", "", strings.Join(errs, "\n")
		}
		return result, solver, output
	}
	// stage 0: most obligations are small and decided at once by one back end
	stage0 := false
	if r0, out0 := runSolver(context.Background(), solvers[1], file, 1, opts.Seed); r0 == "unsat" {
		result, solver, output = r0, solvers[1].name, out0
		stage0 = true
	}
	// stage 1: the full query on all three back ends, short budget
	short := 2
	if opts.TimeoutS < short {
		short = opts.TimeoutS
	}
	if !stage0 {
		result, solver, output = race([]string{file}, 0, short)
	}
	if !stage0 && result != "unsat" && result != "sat" && result != "error" {
		// stage 2: the full query again with the whole budget, raced against sound weakenings of it
		// (prelude axioms dropped / quantified path facts dropped / both): fewer quantified facts often
		// keep the back ends out of matching loops; unsat of a weakening proves the obligation.
		b, err := os.ReadFile(file)
		if err == nil {
			files := []string{file}
			for i, v := range [][2]bool{{true, false}, {false, true}, {true, true}} {
				vf := fmt.Sprintf("%s.w%d.smt2", strings.TrimSuffix(file, ".smt2"), i+1)
				os.WriteFile(vf, []byte(variant(string(b), v[0], v[1])), 0644)
				files = append(files, vf)
				defer os.Remove(vf)
			}
			result, solver, output = race(files, 0, opts.TimeoutS)
		}
	}
	if opts.Confirm && result == "unsat" {
		for _, sp := range solvers {
			if sp.name == solver {
				continue
			}
			r2, _ := runSolver(context.Background(), sp, file, opts.TimeoutS, opts.Seed)
			if r2 == "unsat" {
				agreed = append(agreed, sp.name)
				break
			}
			if r2 == "sat" {
				result = "error"
				output = "solver disagreement: " + solver + " says unsat, " + sp.name + " says sat"
				break
			}
		}
	}
	millis = time.Since(start).Milliseconds()
	return
}

func firstLines(s string, n int) string {
	ls := strings.Split(strings.TrimSpace(s), "\n")
	if len(ls) > n {
		ls = ls[:n]
	}
	return strings.Join(ls, " | ")
}

// getModel re-runs z3-new (then z3) on a sat query with (get-model) appended.
func getModel(file string, opts SolverOpts) string {
	b, err := os.ReadFile(file)
	if err != nil {
		return ""
	}
	mf := strings.TrimSuffix(file, ".smt2") + ".model.smt2"
	os.WriteFile(mf, append(b, []byte("(get-model)\n")...), 0644)
	defer os.Remove(mf)
	for _, sp := range solvers[:2] {
		r, out := runSolver(context.Background(), sp, mf, opts.TimeoutS, opts.Seed)
		if r == "sat" {
			return out
		}
	}
	return ""
}

// SolveAll discharges the queries in parallel.
func SolveAll(qs []*Query, fuel int, opts SolverOpts, factsOf func(q *Query) []*Term) {
	os.MkdirAll(opts.WorkDir, 0755)
	par := opts.Parallel
	if par <= 0 {
		par = 8
	}
	var wg sync.WaitGroup
	sem := make(chan struct{}, par)
	for i, q := range qs {
		if q.Result != "" {
			continue
		}
		i, q := i, q
		smt, err := q.BuildSMT(fuel, nil, factsOf(q))
		if err != nil {
			q.Result = "error"
			q.Model = err.Error()
			continue
		}
		q.SMT = smt
		wg.Add(1)
		sem <- struct{}{}
		go func() {
			defer wg.Done()
			defer func() { <-sem }()
			name := "cover"
			if q.Ob != nil {
				name = q.Ob.Name
			}
			file := filepath.Join(opts.WorkDir, fmt.Sprintf("q%05d_%s.smt2", i, mangle(name)))
			os.WriteFile(file, []byte(smt), 0644)
			q.Result, q.Solver, q.Model, q.Millis, q.Agreed = Solve(file, opts, q.Cover)
			if q.Result == "sat" && !q.Cover && opts.Models {
				q.Model = getModel(file, opts)
			}
			if os.Getenv("JVC_KEEP") == "" {
				os.Remove(file)
			} else {
				q.SMT = file
			}
		}()
	}
	wg.Wait()
}
