package main

import (
	"fmt"
	"go/types"
	"strings"

	"golang.org/x/tools/go/ssa"
)

func (u *Unit) setResults(p *Path, x *ssa.Call, rs []*Term) {
	sig := x.Call.Signature()
	switch sig.Results().Len() {
	case 0:
	case 1:
		p.vals[x] = rs[0].WithT(sig.Results().At(0).Type())
	default:
		for i := range rs {
			rs[i] = rs[i].WithT(sig.Results().At(i).Type())
		}
		p.tuples[x] = rs
	}
}

func (u *Unit) execCall(p *Path, x *ssa.Call) {
	cc := &x.Call
	if cc.IsInvoke() {
		u.execInvoke(p, x)
		return
	}
	switch callee := cc.Value.(type) {
	case *ssa.Builtin:
		u.execBuiltin(p, x, callee)
	case *ssa.Function:
		if u.builderCall(p, x, callee) {
			return
		}
		var args []*Term
		for _, a := range cc.Args {
			args = append(args, u.val(p, a))
		}
		if callee.Blocks == nil || callee.Pkg != u.v.enc.pkg {
			u.execExtern(p, x, callee.String(), args)
			return
		}
		if bc := u.v.boundContract(callee); bc != nil {
			rs := u.applyContract(p, x, callee, bc, args)
			u.setResults(p, x, rs)
			return
		}
		u.inline(p, x, callee, args)
	default:
		// call through a function value: a user callback
		u.execCallback(p, x)
	}
}

func (u *Unit) execBuiltin(p *Path, x *ssa.Call, b *ssa.Builtin) {
	enc := u.v.enc
	switch b.Name() {
	case "len":
		a := u.val(p, x.Call.Args[0])
		switch ut := x.Call.Args[0].Type().Underlying().(type) {
		case *types.Basic:
			p.vals[x] = App("str.len", SInt, a).WithT(x.Type())
		case *types.Slice:
			if a.Sort == SStr {
				p.vals[x] = App("str.len", SInt, a).WithT(x.Type())
			} else {
				p.vals[x] = enc.Sel("sl_len", a).WithT(x.Type())
			}
		case *types.Map:
			mv, _ := u.mapValueAt(p, a, ut)
			n := enc.MapCard(mv)
			// cardinality facts: witnessed by an enumeration of the keys
			ksort := enc.SortOf(ut.Key())
			ks := u.cx.Fresh("ks", ArrSort(SInt, ksort))
			idx := u.cx.Fresh("ksidx", ArrSort(ksort, SInt))
			nn := u.cx.Fresh("card", SInt)
			for _, ax := range u.enumAxiomsP(mv, ks, idx, nn, false) {
				p.assume(ax)
			}
			// an empty map has no keys (cheap trigger: creates no new terms)
			u.cx.n++
			kk := V(fmt.Sprintf("q_k_%d", u.cx.n), ksort)
			p.assume(Forall([]*Term{kk}, Imp(Eq(n, IntLit(0)), Not(Select(enc.MapDom(mv), kk))), []*Term{Select(enc.MapDom(mv), kk)}))
			p.vals[x] = n.WithT(x.Type())
		default:
			u.fail("len of %s", x.Call.Args[0].Type())
		}
	case "cap":
		p.vals[x] = enc.Sel("sl_cap", u.val(p, x.Call.Args[0])).WithT(x.Type())
	case "append":
		u.execAppend(p, x)
	default:
		u.fail("builtin %s", b.Name())
	}
}

// execAppend models append(s, vs...) with explicit capacity: in place when it fits, otherwise a
// fresh backing array. The two cases are explored as separate paths.
func (u *Unit) execAppend(p *Path, x *ssa.Call) {
	enc := u.v.enc
	s := u.val(p, x.Call.Args[0])
	vs := u.val(p, x.Call.Args[1])
	st := x.Type().Underlying().(*types.Slice)
	if s.Sort != "Slice" {
		u.fail("append on byte slices")
	}
	c := enc.cellsComp(enc.SortOf(st.Elem()))
	k := enc.Sel("sl_len", vs)
	arr, off, ln, cp := enc.Sel("sl_arr", s), IntLit(0), enc.Sel("sl_len", s), enc.Sel("sl_cap", s)
	cells := p.st.Get(u.cx, c.Name)
	varr, voff := enc.Sel("sl_arr", vs), IntLit(0)
	kConst := -1
	if k.Op == "#int" {
		fmt.Sscan(k.Lit, &kConst)
	}
	fits := Le(Add(ln, k), cp)
	// path A: fits in place
	q := p.clone()
	{
		q.assume(fits)
		q.trace = append(q.trace, -1)
		if kConst >= 0 && kConst <= 8 {
			a := Select(cells, arr)
			for j := 0; j < kConst; j++ {
				a = Store(a, Add(Add(off, ln), IntLit(int64(j))), Select(Select(cells, varr), Add(voff, IntLit(int64(j)))))
			}
			if kConst > 0 {
				q.st.comps[c.Name] = Store(cells, arr, a)
			}
		} else {
			na := u.cx.Fresh("appended", ArrSort(SInt, c.Elem))
			u.cx.n++
			j := V(fmt.Sprintf("q_j_%d", u.cx.n), SInt)
			oldA := Select(cells, arr)
			q.assume(Forall([]*Term{j}, Ite(And(Ge(j, Add(off, ln)), Lt(j, Add(Add(off, ln), k))),
				Eq(Select(na, j), Select(Select(cells, varr), Add(voff, Sub(j, Add(off, ln))))),
				Eq(Select(na, j), Select(oldA, j))), []*Term{Select(na, j)}))
			q.st.comps[c.Name] = Store(cells, arr, na)
		}
		q.vals[x] = enc.Mk("mk_Slice", arr, off, Add(ln, k), cp).WithT(x.Type())
	}
	// path B: reallocation
	{
		p.assume(Not(fits))
		p.trace = append(p.trace, -2)
		r := u.freshRef(p, "grown")
		ncap := u.cx.Fresh("newcap", SInt)
		p.assume(Ge(ncap, Add(ln, k)))
		oldA := Select(cells, arr)
		if kConst >= 0 && kConst <= 8 && ln.Op == "#int" {
			var n int
			fmt.Sscan(ln.Lit, &n)
			_, inner, _ := arrParts(c.Sort)
			a := ConstArray(inner, enc.Zero(c.Elem))
			for j := 0; j < n; j++ {
				a = Store(a, IntLit(int64(j)), Select(oldA, Add(off, IntLit(int64(j)))))
			}
			for j := 0; j < kConst; j++ {
				a = Store(a, IntLit(int64(n+j)), Select(Select(cells, varr), Add(voff, IntLit(int64(j)))))
			}
			p.st.comps[c.Name] = Store(cells, r, a)
		} else {
			na := u.cx.Fresh("grownarr", ArrSort(SInt, c.Elem))
			u.cx.n++
			j := V(fmt.Sprintf("q_j_%d", u.cx.n), SInt)
			p.assume(Forall([]*Term{j}, And(
				Imp(And(Ge(j, IntLit(0)), Lt(j, ln)), Eq(Select(na, j), Select(oldA, Add(off, j)))),
				Imp(And(Ge(j, ln), Lt(j, Add(ln, k))), Eq(Select(na, j), Select(Select(cells, varr), Add(voff, Sub(j, ln)))))),
				[]*Term{Select(na, j)}))
			p.st.comps[c.Name] = Store(cells, r, na)
		}
		p.vals[x] = enc.Mk("mk_Slice", r, IntLit(0), Add(ln, k), ncap).WithT(x.Type())
	}
	// continue path A after this instruction: handled by the caller through continuation
	u.pendingFork = append(u.pendingFork, fork{q, x})
}

type fork struct {
	p  *Path
	at ssa.Instruction
}

// ---- contracts at call sites ----

func (u *Unit) applyContract(p *Path, x *ssa.Call, callee *ssa.Function, bc *BoundContract, args []*Term) []*Term {
	site := fnDisplay(callee)
	for i, prm := range callee.Params {
		if i < len(args) {
			args[i] = args[i].WithT(prm.Type())
		}
	}
	epoch := u.epochFor(p)
	envFor := func(st, old *State, results []*Term) func(bool) *Env {
		return func(fromIface bool) *Env {
			// recursive spec functions read the tree of the state a clause talks about: the state after the call
			// for a postcondition, the state before it inside old()
			env := &Env{cx: u.cx, st: st, old: old, vars: u.v.contractVars(callee, bc.iface, fromIface, args, results), epochSt: u.cx.snapshotIfChanged(st), epochSplit: true, epochOld: epoch}
			if !fromIface {
				env.contract = bc.own
			}
			return env
		}
	}
	pre := p.st.Clone()
	// preconditions
	usesTree := false
	for _, c := range bc.Requires {
		g, err := envFor(p.st, nil, nil)(c.FromIface).EvalBool(c.Expr)
		if err != nil {
			u.fail("requires %s of %s: %v", c.Label, site, err)
		}
		if c.Free {
			continue
		}
		o := u.ob(fmt.Sprintf("pre.%s@%s.%s", c.Label, site, u.callOrdinal(x)), "pre", c.Props, c.Src)
		u.check(p, o, g)
		p.assume(g)
	}
	_ = usesTree
	eff := u.v.eff.fns[callee]
	regs, err := u.evalModifies(bc.Modifies, func(fromIface bool) *Env { return envFor(pre, pre, nil)(fromIface) })
	if err != nil {
		u.fail("%s: %v", site, err)
	}
	u.havocForCall(p, pre, eff, regs)
	// results
	var rs []*Term
	res := callee.Signature.Results()
	for i := 0; i < res.Len(); i++ {
		r := u.cx.Fresh("ret_"+callee.Name(), u.v.enc.SortOf(res.At(i).Type())).WithT(res.At(i).Type())
		rs = append(rs, r)
		u.assumeWF(p, r, res.At(i).Type())
	}
	for _, c := range bc.Ensures {
		g, err := envFor(p.st, pre, rs)(c.FromIface).EvalBool(c.Expr)
		if err != nil {
			u.fail("ensures %s of %s: %v", c.Label, site, err)
		}
		p.assume(g)
	}
	return rs
}

func (u *Unit) callOrdinal(in ssa.Instruction) string {
	if m, ok := u.siteNames[in]; ok {
		if n, ok := m["call"]; ok {
			return n
		}
	} else {
		u.siteNames[in] = map[string]string{}
	}
	u.counters["call"]++
	n := fmt.Sprint(u.counters["call"])
	u.siteNames[in]["call"] = n
	return n
}

// epochFor names the tree snapshot a callee's contract talks about: the entry tree when nothing the
// recursive spec functions read has changed since entry, otherwise a snapshot of the current state.
func (u *Unit) epochFor(p *Path) *State {
	for _, cn := range sortedKeys(u.cx.treeReads) {
		if !same(u.entry.Get(u.cx, cn), p.st.Get(u.cx, cn)) {
			return p.st.Clone()
		}
	}
	return nil
}

// treeStable (unused): recursive spec functions read the tree as it was at entry; a callee contract that
// mentions them is only meaningful if the tree is still the same.
func (u *Unit) treeStable(p *Path, in ssa.Instruction, site string) {
	for _, cn := range sortedKeys(u.cx.treeReads) {
		before, now := u.entry.Get(u.cx, cn), p.st.Get(u.cx, cn)
		if same(before, now) {
			continue
		}
		comp := u.v.enc.comps[cn]
		f := u.frameFormula(comp, before, now, nil, u.entry.Get(u.cx, "alloc"), true)
		o := u.ob(fmt.Sprintf("tree-stable.%s@%s.%s", cn, site, u.callOrdinal(in)), "frame", []string{"C08"}, "the Code tree ("+cn+") is unchanged when "+site+" is called")
		u.check(p, o, f)
	}
}

// havocForCall replaces every component the callee may touch by a fresh value constrained by the frame.
func (u *Unit) havocForCall(p *Path, pre *State, eff *Effects, regs map[string]*Region) {
	enc := u.v.enc
	if eff == nil {
		return
	}
	allocBefore := pre.Get(u.cx, "alloc")
	if eff.Allocs {
		na := u.cx.Fresh("alloc", SInt)
		p.assume(Ge(na, allocBefore))
		p.st.comps["alloc"] = na
	}
	for _, cn := range eff.Comps() {
		comp := enc.comps[cn]
		if comp == nil || cn == "alloc" {
			continue
		}
		nv := u.cx.Fresh(cn, comp.Sort)
		p.st.comps[cn] = nv
		reg := regs[cn]
		if !eff.W[cn] {
			reg = nil // only fresh objects are initialised
		}
		if u.cx.frameInfo == nil {
			u.cx.frameInfo = map[string]frameInfo{}
		}
		u.cx.frameInfo[nv.Op] = frameInfo{base: pre.Get(u.cx, cn), hasRegion: reg != nil && (reg.Whole || len(reg.Idx) > 0 || len(reg.Cells) > 0)}
		p.assume(u.frameFormula(comp, pre.Get(u.cx, cn), nv, reg, allocBefore, false))
		if inv := u.refInvariant(cn, nv, p.st.Get(u.cx, "alloc")); inv != nil {
			p.assume(inv)
		}
	}
}

// ---- interface invokes ----

func (u *Unit) execInvoke(p *Path, x *ssa.Call) {
	cc := &x.Call
	key := ifaceKey(cc)
	recv := u.val(p, cc.Value)
	var args []*Term
	for _, a := range cc.Args {
		args = append(args, u.val(p, a))
	}
	if key == "io.Writer.Write" {
		n, err := u.writerWrite(p, recv, args[0])
		p.tuples[x] = []*Term{n, err}
		return
	}
	c := u.v.contracts.byKey[key]
	if c == nil {
		u.fail("invoke of %s without an interface contract", key)
	}
	// receiver must not be the nil interface
	if recv.Sort == "Code" {
		o := u.ob(u.siteName(x, "invoke-nil"), "safe", []string{"C13", "C02"}, "method call on a nil Code value")
		g := Neq(recv, V("C_nil", "Code"))
		u.check(p, o, g)
		p.assume(g)
	}
	sig := cc.Signature()
	for i := range args {
		args[i] = args[i].WithT(sig.Params().At(i).Type())
	}
	pre := p.st.Clone()
	epoch := u.epochFor(p)
	for _, cl := range c.Requires {
		env := &Env{cx: u.cx, st: p.st, vars: u.v.ifaceInvokeVars(c, recv, args, nil, sig), epochSt: epoch}
		g, err := env.EvalBool(cl.Expr)
		if err != nil {
			u.fail("requires %s of %s: %v", cl.Label, key, err)
		}
		if cl.Free {
			continue
		}
		o := u.ob(fmt.Sprintf("pre.%s@%s.%s", cl.Label, key, u.callOrdinal(x)), "pre", cl.Props, cl.Src)
		u.check(p, o, g)
		p.assume(g)
	}
	// effects: union over implementations
	eff := &Effects{W: map[string]bool{}, A: map[string]bool{}}
	for _, impl := range u.v.eff.impl[key] {
		merge(eff, u.v.eff.fns[impl])
	}
	var mods []BoundMod
	for i, m := range c.Modifies {
		mods = append(mods, BoundMod{m, c.ModSrc[i], true})
	}
	regs, err := u.evalModifies(mods, func(bool) *Env {
		return &Env{cx: u.cx, st: pre, old: pre, vars: u.v.ifaceInvokeVars(c, recv, args, nil, sig)}
	})
	if err != nil {
		u.fail("%s: %v", key, err)
	}
	u.havocForCall(p, pre, eff, regs)
	var rs []*Term
	for i := 0; i < sig.Results().Len(); i++ {
		rs = append(rs, u.cx.Fresh("ret_"+cc.Method.Name(), u.v.enc.SortOf(sig.Results().At(i).Type())).WithT(sig.Results().At(i).Type()))
	}
	for _, cl := range c.Ensures {
		env := &Env{cx: u.cx, st: p.st, old: pre, vars: u.v.ifaceInvokeVars(c, recv, args, rs, sig), epochSt: u.cx.snapshotIfChanged(p.st), epochSplit: true, epochOld: epoch}
		g, err := env.EvalBool(cl.Expr)
		if err != nil {
			u.fail("ensures %s of %s: %v", cl.Label, key, err)
		}
		p.assume(g)
	}
	u.setResults(p, x, rs)
}

// writerWrite models w.Write(b): the ghost log records the call.
func (u *Unit) writerWrite(p *Path, w, b *Term) (*Term, *Term) {
	st := p.st
	written := st.Get(u.cx, "written")
	st.comps["written"] = Store(written, w, Concat(Select(written, w), b))
	nw := st.Get(u.cx, "nwrites")
	st.comps["nwrites"] = Store(nw, w, Add(Select(nw, w), IntLit(1)))
	n := u.cx.Fresh("nwritten", SInt)
	err := u.cx.Fresh("werr", SInt)
	p.assume(Ge(err, IntLit(0)))
	// a *bytes.Buffer never fails
	p.assume(Imp(Select(st.Get(u.cx, "isbuf"), w), Eq(err, IntLit(0))))
	failed := st.Get(u.cx, "failed")
	st.comps["failed"] = Store(failed, w, Or(Select(failed, w), Neq(err, IntLit(0))))
	return n, err.WithT(types.Universe.Lookup("error").Type())
}

// ---- callbacks ----

func (u *Unit) execCallback(p *Path, x *ssa.Call) {
	enc := u.v.enc
	f := u.val(p, x.Call.Value)
	calls := p.st.Get(u.cx, "calls")
	p.st.comps["calls"] = Store(calls, f, Add(Select(calls, f), IntLit(1)))
	// the callback is code outside the package: it can do whatever the exported API can do
	api := u.v.eff.api
	pre := p.st.Clone()
	allocBefore := pre.Get(u.cx, "alloc")
	na := u.cx.Fresh("alloc", SInt)
	p.assume(Ge(na, allocBefore))
	p.st.comps["alloc"] = na
	for _, cn := range api.Comps() {
		comp := enc.comps[cn]
		if comp == nil || cn == "alloc" || cn == "calls" {
			continue
		}
		nv := u.cx.Fresh(cn, comp.Sort)
		p.st.comps[cn] = nv
		if !api.W[cn] {
			p.assume(u.frameFormula(comp, pre.Get(u.cx, cn), nv, nil, allocBefore, false))
		}
		// heap reference invariant: whatever the callback stored is allocated
		if inv := u.refInvariant(cn, nv, na); inv != nil {
			p.assume(inv)
		}
	}
	// nested callbacks may run other callbacks, never this count backwards
	nc := u.cx.Fresh("calls", enc.comps["calls"].Sort)
	u.cx.n++
	g := V(fmt.Sprintf("q_g_%d", u.cx.n), SInt)
	p.assume(Forall([]*Term{g}, Ge(Select(nc, g), Select(p.st.comps["calls"], g)), []*Term{Select(nc, g)}))
	p.assume(Eq(Select(nc, f), Select(p.st.comps["calls"], f))) // assumption: the callback does not re-enter itself
	p.st.comps["calls"] = nc
	// assumed contract of callbacks: they change the Code tree only through the exported API, every function of
	// which preserves the tree invariant treeOK (obligations <builder>#post.tree, pkg#tree-invariant-api)
	if _, has := u.cx.spec.recdefs["treeOK"]; has {
		if e, err := ParseExpr("treeOK()"); err == nil {
			before, err1 := (&Env{cx: u.cx, st: pre, epochSt: u.cx.snapshotIfChanged(pre), epochSplit: true}).EvalBool(e)
			after, err2 := (&Env{cx: u.cx, st: p.st, epochSt: u.cx.snapshotIfChanged(p.st), epochSplit: true}).EvalBool(e)
			if err1 == nil && err2 == nil {
				// the tree handed to the callback is well-formed (obligation), and so is the tree it leaves
				o := u.ob(fmt.Sprintf("callback.tree.%s", u.callOrdinal(x)), "pre", []string{"C02"}, "treeOK() holds when the callback is called")
				o.Unfold = []string{"treeOK"}
				u.check(p, o, before)
				p.assume(before)
				p.assume(after)
			}
		}
	}
	sig := x.Call.Signature()
	var rs []*Term
	for i := 0; i < sig.Results().Len(); i++ {
		T := sig.Results().At(i).Type()
		r := u.cx.Fresh("cbret", enc.SortOf(T)).WithT(T)
		rs = append(rs, r)
		u.assumeWF(p, r, T)
		// documented precondition of LitFunc (the only callback that returns a value of any type): the value
		// is of a type Lit supports
		if r.Sort == "Any" {
			if _, ok := u.cx.spec.defs["supportedLit"]; ok {
				if e, err := ParseExpr("supportedLit(cbr)"); err == nil {
					if g, err := (&Env{cx: u.cx, st: p.st, vars: map[string]*Term{"cbr": r}}).EvalBool(e); err == nil {
						p.assume(g)
					}
				}
			}
		}
	}
	// ghost: the k-th argument of the n-th call of f is cbarg(f, n, k) (references only), so that a contract can
	// say "the callback was run on the new group / on the receiver"
	enc.declFun("cbarg", []string{SInt, SInt, SInt}, SInt)
	for k, a := range x.Call.Args {
		av := u.val(p, a)
		if av.Sort == SInt {
			p.assume(Eq(App("cbarg", SInt, f, Select(p.st.comps["calls"], f), IntLit(int64(k))), av))
		}
	}
	// ghost: what the callback returned on its n-th call is cbresult_<sort>(f, n), so that a contract can say
	// "the token holds what the callback returned"
	if len(rs) == 1 {
		key := "cbresult_" + sortTag(rs[0].Sort)
		enc.declFun(key, []string{SInt, SInt}, rs[0].Sort)
		p.assume(Eq(rs[0], App(key, rs[0].Sort, f, Select(p.st.comps["calls"], f))))
	}
	u.setResults(p, x, rs)
}

// ---- inlining of uncontracted package-local helpers ----

func (u *Unit) inline(p *Path, x *ssa.Call, callee *ssa.Function, args []*Term) {
	if u.inlineDepth >= 3 {
		u.fail("inlining depth exceeded at %s", fnDisplay(callee))
	}
	sub := &Unit{v: u.v, fn: callee, name: u.name, bc: &BoundContract{fn: callee, own: &Contract{Invs: map[int][]*Clause{}}}, cx: u.cx, entry: u.entry,
		params: map[string]*Term{}, obs: u.obs, order: u.order, trusted: u.trusted, counters: u.counters, siteNames: u.siteNames, inlineDepth: u.inlineDepth + 1,
		globalsAssumed: u.globalsAssumed}
	sub.findLoops()
	if len(sub.loops) > 0 || u.inlineDepth >= 2 {
		// a helper with loops (or too deep a call chain) and no contract: nothing is known about its
		// result; its may-write set bounds what it can change
		u.noteUnmodelled("callee " + fnDisplay(callee) + " has loops and no contract: result unconstrained")
		pre := p.st.Clone()
		eff := u.v.eff.fns[callee]
		regs := map[string]*Region{}
		if eff != nil {
			for cn := range eff.W {
				regs[cn] = &Region{Comp: cn, Whole: true}
			}
		}
		u.havocForCall(p, pre, eff, regs)
		var rs []*Term
		res := callee.Signature.Results()
		for i := 0; i < res.Len(); i++ {
			r := u.cx.Fresh("opaque_"+callee.Name(), u.v.enc.SortOf(res.At(i).Type())).WithT(res.At(i).Type())
			u.assumeWF(p, r, res.At(i).Type())
			rs = append(rs, r)
		}
		u.setResults(p, x, rs)
		return
	}
	ip := p.clone()
	// callee-local view: its own SSA values
	for i, prm := range callee.Params {
		ip.vals[prm] = args[i].WithT(prm.Type())
	}
	type ret struct {
		p  *Path
		rs []*Term
	}
	var rets []ret
	sub.retHook = func(rp *Path, rs []*Term) { rets = append(rets, ret{rp, rs}) }
	savedNames := ip.names
	ip.names = map[string]ssa.Value{}
	if sub.trusted == nil {
		u.trusted = map[string]bool{}
		sub.trusted = u.trusted
	}
	sub.execFrom(ip, callee.Blocks[0], nil, 0, false)
	u.globalFacts = append(u.globalFacts, sub.globalFacts...)
	u.paths += sub.paths
	u.covers = append(u.covers, sub.covers...)
	u.undecided = append(u.undecided, sub.undecided...)
	if len(rets) == 0 {
		// callee never returns on this path
		p.assume(tFalse)
		u.pathDead = true
		return
	}
	// continue the caller once per callee return path: first one in place, others as forks
	for i, r := range rets {
		r.p.names = savedNames
		if i == 0 {
			*p = *r.p
			u.setResults(p, x, r.rs)
		} else {
			u.setResults(r.p, x, r.rs)
			u.pendingFork = append(u.pendingFork, fork{r.p, x})
		}
	}
}

func describeCall(x *ssa.Call) string {
	return strings.TrimSpace(x.String())
}

// builderCall models the methods of a local strings.Builder, which is represented by the string it has
// accumulated (see execAlloc): WriteString/WriteByte/WriteRune append, Len and String read, Reset empties.
func (u *Unit) builderCall(p *Path, x *ssa.Call, callee *ssa.Function) bool {
	name := callee.String()
	if !strings.HasPrefix(name, "(*strings.Builder).") || len(x.Call.Args) == 0 {
		return false
	}
	a, ok := p.addrs[x.Call.Args[0]]
	if !ok || a.Kind != "local" {
		return false
	}
	cur := u.load(p, a)
	if cur.Sort != SStr {
		return false
	}
	u.useTrusted("(*strings.Builder)")
	switch strings.TrimPrefix(name, "(*strings.Builder).") {
	case "WriteString":
		arg := u.val(p, x.Call.Args[1])
		u.store(p, a, Concat(cur, arg))
		u.setResults(p, x, []*Term{App("str.len", SInt, arg), IntLit(0)})
	case "WriteByte":
		c := u.val(p, x.Call.Args[1])
		u.store(p, a, Concat(cur, App("str.from_code", SStr, c)))
		u.setResults(p, x, []*Term{IntLit(0)})
	case "WriteRune":
		// the UTF-8 encoding of a rune is not modelled: some non-empty text is appended
		t := u.cx.Fresh("runetext", SStr)
		p.assume(Ge(App("str.len", SInt, t), IntLit(1)))
		u.store(p, a, Concat(cur, t))
		u.setResults(p, x, []*Term{App("str.len", SInt, t), IntLit(0)})
	case "Len":
		u.setResults(p, x, []*Term{App("str.len", SInt, cur)})
	case "String":
		u.setResults(p, x, []*Term{cur})
	case "Reset":
		u.store(p, a, StrLit(""))
		u.setResults(p, x, nil)
	case "Grow":
		u.setResults(p, x, nil)
	default:
		return false
	}
	return true
}
