package jen

// Witness searches for the two recorded Dict findings.
//   Dict.render#inv1.distinct.step : two live keys with the same rendered text share one lookup entry
//   Dict.render#post.spec          : the output is not a function of the set of pairs (key texts are
//                                    rendered - and their packages registered - in map iteration order)

import (
	"bytes"
	"fmt"
	"sort"
	"strings"
	"testing"
)

func TestReplay_DictEqualKeyTexts(t *testing.T) {
	lost := 0
	for i := 0; i < 50; i++ {
		d := Dict{Id("f").Call(): Lit(1), Id("f").Call().Clone(): Lit(2)}
		// two distinct keys (different *Statement values), same text "f()"
		out := fmt.Sprintf("%#v", Values(d))
		if !(strings.Contains(out, "f(): 1") && strings.Contains(out, "f(): 2")) {
			lost++
			if lost == 1 {
				t.Errorf("FAILING INPUT: Values(Dict{f(): 1, f(): 2}) renders %q - one pair is lost, the other printed twice", out)
			}
		}
	}
}

func TestReplay_DictOrderDependentImports(t *testing.T) {
	seen := map[string]bool{}
	for i := 0; i < 300; i++ {
		f := NewFile("p")
		f.Var().Id("m").Op("=").Map(String()).Int().Values(Dict{
			Qual("a/x", "K"): Lit(1),
			Qual("b/x", "K"): Lit(2),
			Qual("c/x", "K"): Lit(3),
		})
		seen[fmt.Sprintf("%#v", f)] = true
	}
	if len(seen) > 1 {
		t.Errorf("FAILING INPUT: a Dict whose keys are Qual(\"a/x\",\"K\"), Qual(\"b/x\",\"K\"), Qual(\"c/x\",\"K\") rendered %d different files over 300 identical builds", len(seen))
		n := 0
		for s := range seen {
			if n < 2 {
				t.Logf("variant:\n%s", s)
			}
			n++
		}
	}
}

// Dict.render#inv1.keytext / #inv2.ordered (C16): pairs are ordered by the rendered text of their keys,
// every pair appears once with its own value, one pair inline and several one per line.
func TestReplay_DictOrder(t *testing.T) {
	cases := [][]Code{
		{Id("x"), Id("x1"), Id("x2")},
		{Lit(1), Lit(10), Lit(2)},
		{Id("a"), Id("a").Dot("B"), Id("a").Call()},
		{Id("Name"), Id("NameSpace"), Id("N")},
		{Lit("b"), Lit("a"), Lit("a b")},
		{Id("only")},
	}
	for _, keys := range cases {
		d := Dict{}
		var texts []string
		for i, k := range keys {
			d[k] = Lit(100 + i)
			var kb bytes.Buffer
			k.render(NewFile(""), &kb, nil)
			texts = append(texts, kb.String())
		}
		f := NewFile("p")
		f.NoFormat = true
		f.Add(Values(d))
		out := fmt.Sprintf("%#v", f)
		sorted := append([]string(nil), texts...)
		sort.Strings(sorted)
		pos := -1
		for _, kt := range sorted {
			val := ""
			for i, x := range texts {
				if x == kt {
					val = fmt.Sprint(100 + i)
				}
			}
			i := strings.Index(out, kt+":"+val)
			if i < 0 {
				t.Errorf("FAILING INPUT: Dict with keys %v: pair %s:%s is missing from %q", texts, kt, val, out)
				continue
			}
			if i < pos {
				t.Errorf("FAILING INPUT: Dict with keys %v: pairs are not in order of their key texts %v in %q", texts, sorted, out)
			}
			pos = i
		}
		if len(keys) == 1 && strings.Contains(out, "\n{\n") {
			t.Errorf("FAILING INPUT: a single pair is not rendered inline: %q", out)
		}
	}
}
