package jen

// Witness searches for the two recorded Dict findings.
//   Dict.render#inv1.distinct.step : two live keys with the same rendered text share one lookup entry
//   Dict.render#post.spec          : the output is not a function of the set of pairs (key texts are
//                                    rendered - and their packages registered - in map iteration order)

import (
	"fmt"
	"strings"
	"testing"
)

func TestReplay_DictEqualKeyTexts(t *testing.T) {
	lost := 0
	for i := 0; i < 50; i++ {
		d := Dict{Id("f").Call(): Lit(1), Id("f").Call().Clone(): Lit(2)}
		// two distinct keys (different *Statement values), same text "f()"
		out := fmt.Sprintf("%#v", Values(d))
		if !(strings.Contains(out, "f(): 1") && strings.Contains(out, "f(): 2")) {
			lost++
			if lost == 1 {
				t.Errorf("FAILING INPUT: Values(Dict{f(): 1, f(): 2}) renders %q - one pair is lost, the other printed twice", out)
			}
		}
	}
}

func TestReplay_DictOrderDependentImports(t *testing.T) {
	seen := map[string]bool{}
	for i := 0; i < 300; i++ {
		f := NewFile("p")
		f.Var().Id("m").Op("=").Map(String()).Int().Values(Dict{
			Qual("a/x", "K"): Lit(1),
			Qual("b/x", "K"): Lit(2),
			Qual("c/x", "K"): Lit(3),
		})
		seen[fmt.Sprintf("%#v", f)] = true
	}
	if len(seen) > 1 {
		t.Errorf("FAILING INPUT: a Dict whose keys are Qual(\"a/x\",\"K\"), Qual(\"b/x\",\"K\"), Qual(\"c/x\",\"K\") rendered %d different files over 300 identical builds", len(seen))
		n := 0
		for s := range seen {
			if n < 2 {
				t.Logf("variant:\n%s", s)
			}
			n++
		}
	}
}
