package jen

// Witness searches for token.render#post.spec (C11, C12), tag.render#post.spec (C17),
// comment.render#post.spec (C15): values chosen around the value-dependent branches.

import (
	"fmt"
	"go/constant"
	"go/scanner"
	gotoken "go/token"
	"go/types"
	"math"
	"reflect"
	"strconv"
	"strings"
	"testing"
)

func evalConst(t *testing.T, src string) (types.TypeAndValue, error) {
	return types.Eval(gotoken.NewFileSet(), types.NewPackage("p", "p"), gotoken.NoPos, src)
}

func TestReplay_NumericLiterals(t *testing.T) {
	floats := []float64{0, 1, -1, 1.5, 1e5, 1e6, -1e6, 2e6, -2e6, 1e20, 1e21, -1e21, 1e-4, 1e-5, 1e-7, -1e-7, 123456789, 1e300, -1e300, 5e-324, math.MaxFloat64, 0.1, 100, 1e15, 1e22, -1e22}
	for _, lit := range []func(v interface{}) *Statement{Lit, func(v interface{}) *Statement { return LitFunc(func() interface{} { return v }) }} {
		for _, v := range floats {
			src := fmt.Sprintf("%#v", lit(v))
			tv, err := evalConst(t, src)
			if err != nil || tv.Value == nil {
				t.Errorf("FAILING INPUT: Lit(float64(%v)) renders %q, which is not a constant expression (%v)", v, src, err)
				continue
			}
			if b, ok := tv.Type.(*types.Basic); !ok || b.Kind() != types.UntypedFloat {
				t.Errorf("FAILING INPUT: Lit(float64(%v)) renders %q of type %v, want an untyped float constant", v, src, tv.Type)
			}
			if got, _ := constant.Float64Val(tv.Value); got != v {
				t.Errorf("FAILING INPUT: Lit(float64(%v)) renders %q with value %v", v, src, got)
			}
		}
		sized := []interface{}{float32(1.5), float32(1e10), int8(-128), int16(300), int32(-7), int64(math.MinInt64), uint(7), uint8(255), uint16(9), uint32(4e9), uint64(math.MaxUint64), uintptr(12), complex64(complex(1, -2)), complex(2.5, 1e21), true, false, 42, -42, math.MaxInt32, math.MaxInt32 + 1, math.MinInt32 - 1, 1 << 40, math.MaxInt64, math.MinInt64, int64(1 << 40), uint32(0), int32(math.MinInt32)}
		for _, v := range sized {
			src := fmt.Sprintf("%#v", lit(v))
			tv, err := evalConst(t, src)
			if err != nil || tv.Value == nil {
				t.Errorf("FAILING INPUT: Lit(%T(%v)) renders %q, which is not a constant expression (%v)", v, v, src, err)
				continue
			}
			want := reflect.TypeOf(v).String()
			got := strings.TrimPrefix(tv.Type.String(), "untyped ")
			switch v.(type) {
			case bool, int, complex128:
				if want == "complex128" {
					want = "complex"
				}
			}
			if got != want {
				t.Errorf("FAILING INPUT: Lit(%T(%v)) renders %q of type %s, want %s", v, v, src, tv.Type, want)
			}
		}
	}
}

func TestReplay_StringRuneByteLiterals(t *testing.T) {
	for _, s := range []string{"", "a", "\"", "`", "\\", "\n", "a\x00b", "\xff\xfe", "x`y\"z", "multi\nline", "tab\t", "é世界", "*/", "// c"} {
		src := fmt.Sprintf("%#v", Lit(s))
		got, err := strconv.Unquote(src)
		if err != nil || got != s {
			t.Errorf("FAILING INPUT: Lit(%q) renders %s, which denotes %q (%v)", s, src, got, err)
		}
	}
	for _, r := range []rune{'a', '\'', '\\', '\n', 0, 0x7f, 'é', '世', 0x10ffff, 0xd7ff, 0xe000} {
		src := fmt.Sprintf("%#v", LitRune(r))
		got, _, _, err := strconv.UnquoteChar(strings.TrimSuffix(strings.TrimPrefix(src, "'"), "'"), '\'')
		if err != nil || got != r {
			t.Errorf("FAILING INPUT: LitRune(%U) renders %s (%v)", r, src, err)
		}
	}
	for b := 0; b < 256; b++ {
		src := fmt.Sprintf("%#v", LitByte(byte(b)))
		tv, err := evalConst(t, src)
		if err != nil || tv.Value == nil || tv.Type.String() != "byte" && tv.Type.String() != "uint8" {
			t.Errorf("FAILING INPUT: LitByte(%d) renders %q (%v, type %v)", b, src, err, tv.Type)
			continue
		}
		if v, _ := constant.Int64Val(tv.Value); v != int64(b) {
			t.Errorf("FAILING INPUT: LitByte(%d) renders %q with value %d", b, src, v)
		}
	}
}

func TestReplay_Tags(t *testing.T) {
	values := []string{"", "a", "a b", "\"q\"", "`bq`", "back\\slash", "end\\", "regexp=^\\d+$", "C:\\new\\table", "nl\nnl", "\xff", "x:\"y\" z:\"w\"", "é"}
	for _, v1 := range values {
		for _, v2 := range values[:5] {
			m := map[string]string{"json": v1, "a-b": v2, "z": v1 + v2}
			src := fmt.Sprintf("%#v", Tag(m))
			lit, err := strconv.Unquote(src)
			if err != nil {
				t.Errorf("FAILING INPUT: Tag(%q) renders %s, not a string literal: %v", m, src, err)
				continue
			}
			for k, v := range m {
				got, ok := reflect.StructTag(lit).Lookup(k)
				if !ok || got != v {
					t.Errorf("FAILING INPUT: Tag(%q) renders %s; Lookup(%q) = %q, %v; want %q", m, src, k, got, ok, v)
				}
			}
			if i, j, z := strings.Index(lit, "a-b:"), strings.Index(lit, "json:"), strings.Index(lit, "z:"); !(i < j && j < z) {
				t.Errorf("FAILING INPUT: Tag keys are not in sorted order in %s", src)
			}
		}
	}
	for _, m := range []map[string]string{{"a": "`x`", "z": "plain"}, {"doc": "use `x` here", "json": "name"}, {"a": "plain", "z": "`x`"}, {"a": "q\"q", "m": "`", "z": "\\"}} {
		src := fmt.Sprintf("%#v", Tag(m))
		lit, err := strconv.Unquote(src)
		if err != nil {
			t.Errorf("FAILING INPUT: Tag(%q) renders %s, not a string literal: %v", m, src, err)
			continue
		}
		for k, v := range m {
			if got, ok := reflect.StructTag(lit).Lookup(k); !ok || got != v {
				t.Errorf("FAILING INPUT: Tag(%q) renders %s; Lookup(%q) = %q, %v; want %q", m, src, k, got, ok, v)
			}
		}
	}
	if out := fmt.Sprintf("%#v", Id("x").Tag(map[string]string{})); out != "x" {
		t.Errorf("FAILING INPUT: an empty Tag renders %q", out)
	}
}

func codeTokens(src string) []string {
	var s scanner.Scanner
	fset := gotoken.NewFileSet()
	s.Init(fset.AddFile("x.go", fset.Base(), len(src)), []byte(src), nil, 0)
	var out []string
	for {
		_, tok, lit := s.Scan()
		if tok == gotoken.EOF {
			return out
		}
		out = append(out, tok.String()+":"+lit)
	}
}

func TestReplay_Comments(t *testing.T) {
	texts := []string{"plain", "x = 2", "\nx = 2", "a\nb", "a\nb\n", "\n", "}", "{", "\"", "`", "é", "trailing \\", "*", "/", "a\n\nb", "\nx = 2\nx = 3", " leading space", "func main() {}", " // note\nreturn 2", "\t//go:noinline\nx = 9", "  /* open", " /* a */ x = 1", "x // y\nz = 1"}
	for _, text := range texts {
		with := NewFile("p")
		with.Func().Id("m").Params().Block(Id("a").Op(":=").Lit(1), Comment(text), Id("b").Op(":=").Lit(2).Comment(text))
		without := NewFile("p")
		without.Func().Id("m").Params().Block(Id("a").Op(":=").Lit(1), Id("b").Op(":=").Lit(2))
		w, wo := fmt.Sprintf("%#v", with), fmt.Sprintf("%#v", without)
		if strings.Join(codeTokens(w), " ") != strings.Join(codeTokens(wo), " ") {
			t.Errorf("FAILING INPUT: Comment(%q) changes the surrounding token sequence:\n%s", text, w)
		}
		for _, line := range strings.Split(text, "\n") {
			if strings.TrimSpace(line) != "" && !strings.Contains(w, line) {
				t.Errorf("FAILING INPUT: Comment(%q): line %q does not survive:\n%s", text, line, w)
			}
		}
	}
}
