package jen

// Witness searches for the import-block obligations with a cgo preamble (C04, C19), the local-path
// obligations of the File constructors (C06), the builder frame/backing obligations (C20), the
// Group-form obligations (C14) and operator adjacency in Statement.render (C01).

import (
	"bytes"
	"fmt"
	"go/ast"
	"go/parser"
	"go/scanner"
	gotoken "go/token"
	"strconv"
	"strings"
	"testing"
)

func parsedImports(t *testing.T, src string) (paths []string, decls [][]string, docs []string, err error) {
	fset := gotoken.NewFileSet()
	af, err := parser.ParseFile(fset, "x.go", src, parser.ParseComments)
	if err != nil {
		return nil, nil, nil, err
	}
	for _, d := range af.Decls {
		gd, ok := d.(*ast.GenDecl)
		if !ok || gd.Tok != gotoken.IMPORT {
			continue
		}
		var one []string
		for _, sp := range gd.Specs {
			p, _ := strconv.Unquote(sp.(*ast.ImportSpec).Path.Value)
			paths = append(paths, p)
			one = append(one, p)
		}
		decls = append(decls, one)
		doc := ""
		if gd.Doc != nil {
			doc = gd.Doc.Text()
		}
		docs = append(docs, doc)
	}
	return
}

func TestReplay_CgoBlock(t *testing.T) {
	others := [][]string{{}, {"foo.bar/a"}, {"foo.bar/a", "fmt"}, {"9fans.net/go/acme"}, {"9fans.net/go/acme", "fmt"}, {"A/b"}, {"-x/y", "zz/top"}, {"B"}}
	for _, paths := range others {
		for _, preamble := range []bool{false, true} {
			for _, useC := range []int{0, 1, 2} { // 0: never, 1: Qual("C", …), 2: Anon("C")
				for _, anonOthers := range []bool{false, true} {
					f := NewFile("p")
					if preamble {
						f.CgoPreamble("#include <stdlib.h>")
					}
					var body []Code
					for i, p := range paths {
						if anonOthers {
							f.Anon(p)
						} else {
							body = append(body, Qual(p, fmt.Sprintf("F%d", i)).Call())
						}
					}
					switch useC {
					case 1:
						body = append(body, Qual("C", "free").Call(Nil()))
					case 2:
						f.Anon("C")
					}
					f.Func().Id("m").Params().Block(body...)
					buf := &bytes.Buffer{}
					if err := f.Render(buf); err != nil {
						t.Errorf("FAILING INPUT: imports %q preamble=%v C=%d anon=%v: Render fails: %v", paths, preamble, useC, anonOthers, err)
						continue
					}
					desc := fmt.Sprintf("imports %q preamble=%v C-use=%d anon=%v", paths, preamble, useC, anonOthers)
					got, decls, docs, err := parsedImports(t, buf.String())
					if err != nil {
						t.Errorf("FAILING INPUT: %s: output does not parse: %v", desc, err)
						continue
					}
					count := map[string]int{}
					for _, p := range got {
						count[p]++
					}
					for _, p := range paths {
						if count[p] != 1 {
							t.Errorf("FAILING INPUT: %s: path %q is imported %d times:\n%s", desc, p, count[p], buf.String())
						}
					}
					wantC := 0
					if useC != 0 || preamble {
						wantC = 1
					}
					if count["C"] != wantC {
						t.Errorf("FAILING INPUT: %s: \"C\" is imported %d times, want %d:\n%s", desc, count["C"], wantC, buf.String())
					}
					if preamble {
						for i, d := range decls {
							for _, p := range d {
								if p == "C" && (len(d) != 1 || !strings.Contains(docs[i], "#include <stdlib.h>")) {
									t.Errorf("FAILING INPUT: %s: import \"C\" is not a declaration of its own directly below the preamble:\n%s", desc, buf.String())
								}
							}
						}
					}
				}
			}
		}
	}
}

func TestReplay_LocalPath(t *testing.T) {
	locals := []string{"a.b/c", "a.b/c/", "c", "a.b/C", "x/a.b/c", "a.b/c/d", "/a.b/c", "a.b//c"}
	ctors := map[string]func(p string) *File{
		"NewFilePath":     func(p string) *File { return NewFilePath(p) },
		"NewFilePathName": func(p string) *File { return NewFilePathName(p, "c") },
	}
	for cname, ctor := range ctors {
		for _, local := range locals {
			for _, ref := range locals {
				for _, prefix := range []string{"", "pfx"} {
					f := ctor(local)
					f.PackagePrefix = prefix
					f.NoFormat = true
					f.Func().Id("m").Params().Block(Qual(ref, "Foo").Call())
					out := fmt.Sprintf("%#v", f)
					bare := strings.Contains(out, "\nFoo ()") || strings.Contains(out, "\nFoo()") || strings.Contains(out, "{\nFoo")
					imported := strings.Contains(out, strconv.Quote(ref))
					if ref == local && (!bare || imported || strings.Contains(out, ".Foo")) {
						t.Errorf("FAILING INPUT: %s(%q), PackagePrefix=%q: Qual(%q, \"Foo\") of the local path is qualified or imported:\n%s", cname, local, prefix, ref, out)
					}
					if ref != local && (!imported || !strings.Contains(out, ".Foo")) {
						t.Errorf("FAILING INPUT: %s(%q), PackagePrefix=%q: Qual(%q, \"Foo\") of a different path is not imported and qualified:\n%s", cname, local, prefix, ref, out)
					}
				}
			}
		}
	}
}

func TestReplay_BuilderAliasing(t *testing.T) {
	type step struct {
		name string
		do   func(s *Statement, tag string) *Statement
	}
	steps := []step{
		{"Add", func(s *Statement, tag string) *Statement { return s.Add(Dot(tag)) }},
		{"Dot", func(s *Statement, tag string) *Statement { return s.Dot(tag) }},
		{"Call", func(s *Statement, tag string) *Statement { return s.Call(Id(tag)) }},
		{"Op+Id", func(s *Statement, tag string) *Statement { return s.Op("+").Id(tag) }},
		{"Comment", func(s *Statement, tag string) *Statement { return s.Comment(tag) }},
		{"Index", func(s *Statement, tag string) *Statement { return s.Index(Id(tag)) }},
		{"Custom", func(s *Statement, tag string) *Statement { return s.Custom(Options{Open: "(", Close: ")"}, Id(tag)) }},
		{"Do", func(s *Statement, tag string) *Statement { return s.Do(func(x *Statement) { x.Dot(tag) }) }},
	}
	origs := map[string]func() *Statement{
		"len4cap6": func() *Statement { return Id("a").Dot("b").Call() },
		"len1":     func() *Statement { return Id("a") },
		"len2":     func() *Statement { return Id("a").Dot("b") },
		"len3cap4": func() *Statement { return Id("a").Dot("b").Dot("c") },
		"clone":    func() *Statement { return Id("a").Dot("b").Call().Clone().Dot("k").Call() },
	}
	for oname, mk := range origs {
		for _, st := range steps {
			orig := mk()
			before := fmt.Sprintf("%#v", orig)
			c1 := st.do(orig.Clone(), "xx")
			r1 := fmt.Sprintf("%#v", c1)
			c2 := st.do(orig.Clone(), "yy")
			r2 := fmt.Sprintf("%#v", c2)
			if got := fmt.Sprintf("%#v", c1); got != r1 {
				t.Errorf("FAILING INPUT: orig=%s: c1 := orig.Clone().%s(xx); c2 := orig.Clone().%s(yy) changes c1 from %q to %q", oname, st.name, st.name, r1, got)
			}
			if got := fmt.Sprintf("%#v", orig); got != before {
				t.Errorf("FAILING INPUT: orig=%s: appending to clones with %s changes the original from %q to %q", oname, st.name, before, got)
			}
			st.do(c1, "ww")
			if got := fmt.Sprintf("%#v", orig); got != before {
				t.Errorf("FAILING INPUT: orig=%s: appending to a clone with %s changes the original from %q to %q", oname, st.name, before, got)
			}
			if got := fmt.Sprintf("%#v", c2); got != r2 {
				t.Errorf("FAILING INPUT: orig=%s: appending to one clone with %s changes the other from %q to %q", oname, st.name, r2, got)
			}
			// appending to the original shows through the clones only as a change of the shared prefix
			st.do(orig, "zz")
			if got := fmt.Sprintf("%#v", c2); !strings.HasSuffix(got, "yy") && !strings.Contains(got, "yy") {
				t.Errorf("FAILING INPUT: orig=%s: appending to the original with %s destroys what its clone appended: %q", oname, st.name, got)
			}
		}
	}
}

func TestReplay_GroupFormOrder(t *testing.T) {
	// the Group form of a construct must behave like g.Add(<function form>): a callback that adds to the
	// enclosing group runs to completion before the new statement is appended
	type form struct {
		name  string
		group func(g *Group, cb func(inner *Group))
		fn    func(cb func(inner *Group)) *Statement
	}
	forms := []form{
		{"CustomFunc", func(g *Group, cb func(*Group)) { g.CustomFunc(Options{Open: "(", Close: ")"}, cb) }, func(cb func(*Group)) *Statement { return CustomFunc(Options{Open: "(", Close: ")"}, cb) }},
		{"BlockFunc", func(g *Group, cb func(*Group)) { g.BlockFunc(cb) }, func(cb func(*Group)) *Statement { return BlockFunc(cb) }},
		{"CallFunc", func(g *Group, cb func(*Group)) { g.CallFunc(cb) }, func(cb func(*Group)) *Statement { return CallFunc(cb) }},
		{"ReturnFunc", func(g *Group, cb func(*Group)) { g.ReturnFunc(cb) }, func(cb func(*Group)) *Statement { return ReturnFunc(cb) }},
		{"ValuesFunc", func(g *Group, cb func(*Group)) { g.ValuesFunc(cb) }, func(cb func(*Group)) *Statement { return ValuesFunc(cb) }},
	}
	for _, fm := range forms {
		a := BlockFunc(func(g *Group) {
			g.Id("first")
			fm.group(g, func(inner *Group) { g.Id("hoisted"); inner.Id("x") })
			g.Id("last")
		})
		b := BlockFunc(func(g *Group) {
			g.Id("first")
			g.Add(fm.fn(func(inner *Group) { g.Id("hoisted"); inner.Id("x") }))
			g.Id("last")
		})
		if x, y := fmt.Sprintf("%#v", a), fmt.Sprintf("%#v", b); x != y {
			t.Errorf("FAILING INPUT: g.%s(cb) and g.Add(%s(cb)) differ when cb also adds to g:\n%s\nvs\n%s", fm.name, fm.name, x, y)
		}
	}
	n := 0
	out := fmt.Sprintf("%#v", BlockFunc(func(g *Group) {
		g.Id("before")
		g.Do(func(s *Statement) { n++ })
		g.Do(func(s *Statement) { n++; s.Id("done") })
	}))
	if n != 2 || !strings.Contains(out, "done") {
		t.Errorf("FAILING INPUT: (*Group).Do: callbacks ran %d times, output %q", n, out)
	}
}

// rawText is the text Statement.render writes, before gofmt sees it
func rawText(st *Statement) string {
	buf := &bytes.Buffer{}
	if err := st.render(NewFile("p"), buf, nil); err != nil {
		return "render error: " + err.Error()
	}
	return buf.String()
}

func scanTokens(src string) (toks []string, errs int) {
	var s scanner.Scanner
	fset := gotoken.NewFileSet()
	s.Init(fset.AddFile("x.go", fset.Base(), len(src)), []byte(src), func(gotoken.Position, string) { errs++ }, 0)
	for {
		_, tok, lit := s.Scan()
		if tok == gotoken.EOF {
			return
		}
		if tok == gotoken.SEMICOLON && lit == "\n" {
			continue
		}
		if lit == "" {
			lit = tok.String()
		}
		toks = append(toks, lit)
	}
}

func TestReplay_TokenSequence(t *testing.T) {
	// the rendered text of a statement lexes to exactly the tokens that were added, in order
	ops := []string{"<", "-", "&", "^", "+", "/", "*", "<-", "=", "!", "|", ">", ":=", "==", "&&", "%", "<<", ">>", "&^", "++", "--", "..."}
	for _, a := range ops {
		for _, b := range ops {
			st := Id("x").Op(a).Op(b).Id("y")
			src := rawText(st)
			got, errs := scanTokens(src)
			want := []string{"x", a, b, "y"}
			if errs != 0 || strings.Join(got, " ") != strings.Join(want, " ") {
				t.Errorf("FAILING INPUT: Id(x).Op(%q).Op(%q).Id(y) renders %q, which lexes as %q", a, b, src, got)
			}
		}
	}
	for _, st := range []*Statement{Id("a").Id("b"), Lit(1).Op("-").Lit(-1), Id("a").Op("-").Lit(-1.5), Lit(1).Id("e"), Id("a").Lit(1), Id("x").Dot("y").Op(".").Id("z")} {
		src := rawText(st)
		n := 0
		for _, c := range *st {
			if !c.isNull(NewFile("")) {
				n++
			}
		}
		got, errs := scanTokens(src)
		if errs != 0 || len(got) < n {
			t.Errorf("FAILING INPUT: a statement of %d items renders %q, which lexes as only %d tokens %q", n, src, len(got), got)
		}
	}
}

func TestReplay_PrefixAndUnaliased(t *testing.T) {
	// with a PackagePrefix, an import that is written without an alias must be referenced by the name the
	// package really has (std table or ImportName); an aliased one by its alias
	cases := []struct{ path, realName string }{{"archive/tar", "tar"}, {"fmt", "fmt"}, {"math/rand", "rand"}, {"encoding/json", "json"}}
	for _, prefix := range []string{"", "pkg"} {
		for _, c := range cases {
			f := NewFile("p")
			f.PackagePrefix = prefix
			f.NoFormat = true
			f.Func().Id("m").Params().Block(Qual(c.path, "X").Call())
			out := fmt.Sprintf("%#v", f)
			got, _, _, err := parsedImports(t, out)
			if err != nil || len(got) != 1 {
				t.Errorf("FAILING INPUT: PackagePrefix=%q Qual(%q): output does not parse or has %d imports: %v\n%s", prefix, c.path, len(got), err, out)
				continue
			}
			aliased := strings.Contains(out, " \""+c.path+"\"") && !strings.Contains(out, "import \""+c.path+"\"") && !strings.Contains(out, "\n\""+c.path+"\"")
			if !aliased && !strings.Contains(out, c.realName+".X") || !aliased && strings.Contains(out, "_"+c.realName+".X") {
				t.Errorf("FAILING INPUT: PackagePrefix=%q Qual(%q): imported without an alias but not referenced as %s.X:\n%s", prefix, c.path, c.realName, out)
			}
		}
		f := NewFile("p")
		f.PackagePrefix = prefix
		f.NoFormat = true
		f.ImportName("example.com/yaml.v2", "yaml")
		f.Func().Id("m").Params().Block(Qual("example.com/yaml.v2", "X").Call())
		out := fmt.Sprintf("%#v", f)
		if strings.Contains(out, "import \"example.com/yaml.v2\"") && !strings.Contains(out, "\nyaml.X") && !strings.Contains(out, "{\nyaml.X") {
			t.Errorf("FAILING INPUT: PackagePrefix=%q ImportName(yaml): imported without an alias but not referenced as yaml.X:\n%s", prefix, out)
		}
	}
}
