package jen

// Witness searches for File.renderImports#post.block / File.Render#post.text (C03, C04, C07):
// the import block is exact, sorted, and the same bytes on every build - with and without formatting.

import (
	"fmt"
	"go/parser"
	gotoken "go/token"
	"sort"
	"strconv"
	"strings"
	"testing"
)

func buildImportsFile(noFormat bool, n int) *File {
	f := NewFile("p")
	f.NoFormat = noFormat
	f.ImportName("unused/hint", "hint")
	f.ImportAlias("other/unused", "zz")
	f.Anon("anon/one")
	paths := []string{"fmt", "a/b", "z/y", "m/n", "crypto/rand", "math/rand", "k/b"}
	var stmts []Code
	for _, p := range paths[:n] {
		stmts = append(stmts, Qual(p, "X").Call())
	}
	stmts = append(stmts, Values(Dict{Id("k"): Null(), Qual("never/used", "K"): Null()}))
	f.Func().Id("m").Params().Block(stmts...)
	return f
}

func TestReplay_ImportBlock(t *testing.T) {
	for _, noFormat := range []bool{true, false} {
		for n := 0; n <= 7; n++ {
			first := ""
			for i := 0; i < 60; i++ {
				out := fmt.Sprintf("%#v", buildImportsFile(noFormat, n))
				if first == "" {
					first = out
				} else if out != first {
					t.Errorf("FAILING INPUT (NoFormat=%v, %d referenced packages): identical builds render different bytes\n--- one:\n%s\n--- other:\n%s", noFormat, n, first, out)
					break
				}
			}
			pf, err := parser.ParseFile(gotoken.NewFileSet(), "x.go", first, parser.ImportsOnly)
			if err != nil {
				t.Errorf("FAILING INPUT (NoFormat=%v, n=%d): output does not parse: %v\n%s", noFormat, n, err, first)
				continue
			}
			var got []string
			for _, im := range pf.Imports {
				p, _ := strconv.Unquote(im.Path.Value)
				got = append(got, p)
			}
			want := append([]string{"anon/one"}, []string{"fmt", "a/b", "z/y", "m/n", "crypto/rand", "math/rand", "k/b"}[:n]...)
			sort.Strings(want)
			if !sort.StringsAreSorted(got) {
				t.Errorf("FAILING INPUT (NoFormat=%v, n=%d): import block is not sorted: %v", noFormat, n, got)
			}
			sorted := append([]string(nil), got...)
			sort.Strings(sorted)
			if strings.Join(sorted, ",") != strings.Join(want, ",") {
				t.Errorf("FAILING INPUT (NoFormat=%v, n=%d): imports %v, want exactly %v", noFormat, n, got, want)
			}
		}
	}
}
