package jen

// Witness search for IsReservedWord#post.oracle: every Go keyword and every universe-scope
// identifier of the toolchain must be rejected as an import alias. Exhaustive over the oracle sets.

import (
	gotoken "go/token"
	"go/types"
	"testing"
)

func TestReplay_ReservedOracle(t *testing.T) {
	var words []string
	for tk := gotoken.BREAK; tk <= gotoken.VAR; tk++ {
		if tk.IsKeyword() {
			words = append(words, tk.String())
		}
	}
	words = append(words, types.Universe.Names()...)
	for _, w := range words {
		if !IsReservedWord(w) {
			t.Errorf("FAILING INPUT: IsReservedWord(%q) == false, but %q is a keyword or predeclared identifier", w, w)
			f := NewFile("main")
			f.Func().Id("main").Params().Block(Qual("example.org/x/"+w, "F").Call())
			t.Logf("rendered file:\n%#v", f)
		}
	}
}
