package jen

// Witness searches for the nil-receiver safety obligations of the isNull family
// (Group.isNullItems#safe.invoke-nil, Statement.isNull#safe.invoke-nil, Dict.*#safe.invoke-nil):
// a nil item must behave like Null() in every list construct - no panic, no output, no separator.

import (
	"fmt"
	"testing"
)

func renderOrPanic(c Code) (out string, panicked interface{}) {
	defer func() {
		if r := recover(); r != nil {
			panicked = r
		}
	}()
	f := NewFile("p")
	f.NoFormat = true
	f.Add(c)
	return fmt.Sprintf("%#v", f), nil
}

func TestReplay_NilItemsGroup(t *testing.T) {
	x := func() Code { return Id("x") }
	cases := []struct {
		name          string
		with, without func() Code
	}{
		{"List(nil, x)", func() Code { return List(nil, x()) }, func() Code { return List(x()) }},
		{"List(x, nil)", func() Code { return List(x(), nil) }, func() Code { return List(x()) }},
		{"Union(nil, x)", func() Code { return Union(nil, x()) }, func() Code { return Union(x()) }},
		{"Id(a).Types(nil)", func() Code { return Id("a").Types(nil) }, func() Code { return Id("a").Types() }},
		{"Custom(no delimiters)(nil, x)", func() Code { return Custom(Options{Separator: ","}, nil, x()) }, func() Code { return Custom(Options{Separator: ","}, x()) }},
		{"Call(List(nil))", func() Code { return Id("f").Call(List(nil)) }, func() Code { return Id("f").Call(List()) }},
	}
	for _, c := range cases {
		got, p := renderOrPanic(c.with())
		if p != nil {
			t.Errorf("FAILING INPUT: %s panics: %v", c.name, p)
			continue
		}
		want, _ := renderOrPanic(c.without())
		if got != want {
			t.Errorf("FAILING INPUT: %s renders %q, without the nil item %q", c.name, got, want)
		}
	}
}

func TestReplay_NilItemsStatement(t *testing.T) {
	x := func() Code { return Id("x") }
	cases := []struct {
		name          string
		with, without func() Code
	}{
		{"List(Add(nil), x)", func() Code { return List(Add(nil), x()) }, func() Code { return List(x()) }},
		{"Params(Add(nil, nil))", func() Code { return Id("f").Params(Add(nil, nil)) }, func() Code { return Id("f").Params() }},
		{"Call(Add(nil).Add(Null()))", func() Code { return Id("f").Call(Add(nil).Add(Null())) }, func() Code { return Id("f").Call() }},
	}
	for _, c := range cases {
		got, p := renderOrPanic(c.with())
		if p != nil {
			t.Errorf("FAILING INPUT: %s panics: %v", c.name, p)
			continue
		}
		want, _ := renderOrPanic(c.without())
		if got != want {
			t.Errorf("FAILING INPUT: %s renders %q, without the nil item %q", c.name, got, want)
		}
	}
}

func TestReplay_NilItemsDict(t *testing.T) {
	cases := []struct {
		name          string
		with, without func() Code
	}{
		{"Values(Dict{a: nil})", func() Code { return Values(Dict{Id("a"): nil}) }, func() Code { return Values(Dict{}) }},
		{"Values(Dict{a: nil, b: 1})", func() Code { return Values(Dict{Id("a"): nil, Id("b"): Lit(1)}) }, func() Code { return Values(Dict{Id("b"): Lit(1)}) }},
		{"Values(Dict{nil: 1, b: 1})", func() Code { return Values(Dict{nil: Lit(1), Id("b"): Lit(1)}) }, func() Code { return Values(Dict{Id("b"): Lit(1)}) }},
	}
	for _, c := range cases {
		got, p := renderOrPanic(c.with())
		if p != nil {
			t.Errorf("FAILING INPUT: %s panics: %v", c.name, p)
			continue
		}
		want, _ := renderOrPanic(c.without())
		if got != want {
			t.Errorf("FAILING INPUT: %s renders %q, without the nil pair %q", c.name, got, want)
		}
	}
}
