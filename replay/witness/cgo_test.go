package jen

// Witness searches for the cgo obligations (C19): File.register#post.cgo, File.renderImports#post.block.

import (
	"fmt"
	"strings"
	"testing"
)

func TestReplay_CgoName(t *testing.T) {
	type setup func(f *File)
	setups := map[string]setup{
		"plain":                    func(f *File) {},
		"Anon(C) first":            func(f *File) { f.Anon("C") },
		"ImportAlias(C, x)":        func(f *File) { f.ImportAlias("C", "x") },
		"ImportName(C, cc)":        func(f *File) { f.ImportName("C", "cc") },
		"ImportAlias(C, .)":        func(f *File) { f.ImportAlias("C", ".") },
		"other package hinted C":   func(f *File) { f.ImportName("a/c", "C"); f.Add(Qual("a/c", "Y").Call()) },
		"preamble":                 func(f *File) { f.CgoPreamble("#include <stdlib.h>") },
		"Anon(C) + preamble":       func(f *File) { f.Anon("C"); f.CgoPreamble("#include <stdlib.h>") },
		"many imports + preamble":  func(f *File) { f.CgoPreamble("// x"); f.Add(Qual("fmt", "P").Call()); f.Add(Qual("a/b", "Q").Call()); f.Anon("z/y") },
	}
	for name, su := range setups {
		for _, prefix := range []string{"", "pfx"} {
			f := NewFile("p")
			f.PackagePrefix = prefix
			f.NoFormat = true
			su(f)
			f.Func().Id("m").Params().Block(Qual("C", "free").Call(Nil()))
			out := fmt.Sprintf("%#v", f)
			if !strings.Contains(out, "C.free") {
				t.Errorf("FAILING INPUT (%s, PackagePrefix=%q): Qual(\"C\", \"free\") is not rendered as C.free:\n%s", name, prefix, out)
			}
			if !strings.Contains(out, `import "C"`) && !strings.Contains(out, "\n\"C\"\n") && !strings.Contains(out, "\"C\"") {
				t.Errorf("FAILING INPUT (%s, PackagePrefix=%q): no import of \"C\":\n%s", name, prefix, out)
			}
			for _, ln := range strings.Split(out, "\n") {
				ln = strings.TrimSpace(ln)
				if strings.HasSuffix(ln, `"C"`) && ln != `"C"` && ln != `import "C"` {
					t.Errorf("FAILING INPUT (%s, PackagePrefix=%q): the import of \"C\" is written as %q:\n%s", name, prefix, ln, out)
				}
			}
			if strings.Contains(name, "preamble") {
				i := strings.Index(out, `import "C"`)
				if i < 0 {
					t.Errorf("FAILING INPUT (%s): with a preamble, `import \"C\"` must be its own declaration:\n%s", name, out)
				} else if !strings.HasSuffix(strings.TrimRight(out[:i], " "), "\n") || !(strings.Contains(out[:i], "#include") || strings.Contains(out[:i], "// x")) {
					t.Errorf("FAILING INPUT (%s): preamble is not directly above import \"C\":\n%s", name, out)
				} else {
					lines := strings.Split(strings.TrimRight(out[:i], "\n"), "\n")
					last := lines[len(lines)-1]
					if !(strings.Contains(last, "#include") || strings.Contains(last, "// x")) {
						t.Errorf("FAILING INPUT (%s): the line above import \"C\" is %q, not the preamble:\n%s", name, last, out)
					}
				}
			}
		}
	}
}
