package jen

// Witness searches for Group.render#frame.F_Group_open / F_Group_close (rendering must not modify
// the tree) and for Group.render#safe.nil (a typed-nil *Group before a Block).

import (
	"bytes"
	"fmt"
	"testing"
)

func renderNoFormat(f *File) (string, error) {
	var b bytes.Buffer
	err := f.Render(&b)
	return b.String(), err
}

func TestReplay_RenderMutatesTree(t *testing.T) {
	build := func() (*File, *Statement) {
		f := NewFile("p")
		f.NoFormat = true
		blk := Block(Id("x").Call())
		f.Func().Id("a").Params().Block(Switch(Id("v")).Block(Case(Lit(1)).Add(blk), Default().Block()))
		return f, blk
	}
	// same File rendered twice
	f, _ := build()
	a, err1 := renderNoFormat(f)
	b, err2 := renderNoFormat(f)
	if err1 != nil || err2 != nil || a != b {
		t.Errorf("FAILING INPUT: a File with Case(1).Block(...) / Default().Block() rendered twice (NoFormat) gives different bytes (err %v / %v)\nfirst:  %q\nsecond: %q", err1, err2, a, b)
	}
	// a Block statement shared between a case position in one File and a plain position in another
	shared := Block(Id("y").Call())
	f1 := NewFile("p")
	f1.NoFormat = true
	f1.Func().Id("a").Params().Block(Switch(Id("v")).Block(Case(Lit(1)).Add(shared)))
	if _, err := renderNoFormat(f1); err != nil {
		t.Fatal(err)
	}
	f2 := NewFile("p")
	f2.NoFormat = true
	f2.Func().Id("b").Params().Add(shared)
	got, _ := renderNoFormat(f2)
	f3 := NewFile("p")
	f3.NoFormat = true
	f3.Func().Id("b").Params().Add(Block(Id("y").Call()))
	want, _ := renderNoFormat(f3)
	if got != want {
		t.Errorf("FAILING INPUT: a Block first rendered after Case(...) and then as a function body in another File lost its braces\ngot:  %q\nwant: %q", got, want)
	}
	// Case(x).Block(nil): second render
	g := NewFile("p")
	g.Func().Id("a").Params().Block(Switch(Id("v")).Block(Case(Lit(1)).Block(nil)))
	first := fmt.Sprintf("%#v", g)
	second := func() (s string) {
		defer func() {
			if r := recover(); r != nil {
				s = fmt.Sprint("panic: ", r)
			}
		}()
		return fmt.Sprintf("%#v", g)
	}()
	if first != second {
		t.Errorf("FAILING INPUT: Case(1).Block(nil) rendered twice: first %q, second %q", first, second)
	}
}

func TestReplay_TypedNilBeforeBlock(t *testing.T) {
	defer func() {
		if r := recover(); r != nil {
			t.Errorf("FAILING INPUT: Add((*Group)(nil)).Block(...) panics while rendering: %v", r)
		}
	}()
	var g *Group
	s := Id("f").Call().Add(g).Block(Id("x").Call())
	f := NewFile("p")
	f.Add(s)
	var b bytes.Buffer
	if err := f.Render(&b); err != nil {
		t.Logf("render error (acceptable): %v", err)
	}
}
