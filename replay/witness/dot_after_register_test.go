package jen

// Witness search for token.isNull#post.spec: once a path has been registered under a name, that
// name - not a hint added later - decides whether references are qualified.

import (
	"bytes"
	"go/parser"
	gotoken "go/token"
	"testing"
)

func TestReplay_DotAfterRegister(t *testing.T) {
	for _, prefix := range []string{"", "pkg"} {
		// direction 1: referenced first, dot-alias hint afterwards
		f := NewFile("p")
		f.PackagePrefix = prefix
		f.Func().Id("a").Params().Block(Qual("a/b", "X").Call())
		var first bytes.Buffer
		if err := f.Render(&first); err != nil {
			t.Fatal(err)
		}
		f.ImportAlias("a/b", ".")
		var second bytes.Buffer
		err := f.Render(&second)
		if err != nil || first.String() != second.String() {
			t.Errorf("FAILING INPUT (PackagePrefix=%q): Render; ImportAlias(\"a/b\", \".\"); Render -> second render differs (err=%v)\nfirst:\n%s\nsecond:\n%s", prefix, err, first.String(), second.String())
		}
		// direction 2: dot import first, a name hint afterwards
		g := NewFile("p")
		g.PackagePrefix = prefix
		g.ImportAlias("a/b", ".")
		g.Func().Id("a").Params().Block(Qual("a/b", "X").Call())
		first.Reset()
		second.Reset()
		if err := g.Render(&first); err != nil {
			t.Fatal(err)
		}
		g.ImportName("a/b", "b")
		err = g.Render(&second)
		if err == nil {
			_, err = parser.ParseFile(gotoken.NewFileSet(), "x.go", second.Bytes(), 0)
		}
		if err != nil || first.String() != second.String() {
			t.Errorf("FAILING INPUT (PackagePrefix=%q): ImportAlias(\"a/b\", \".\"); Render; ImportName(\"a/b\", \"b\"); Render -> second render differs or is invalid (err=%v)\nfirst:\n%s\nsecond:\n%s", prefix, err, first.String(), second.String())
		}
	}
}
