package jen

// Witness searches for the postconditions of (*File).register. Each test drives the real
// register through the public API with a small family of inputs built around the failed clause and
// checks the clause with an independent Go oracle.

import (
	"fmt"
	gotoken "go/token"
	"go/types"
	"testing"
)

func replayFiles() []*File {
	var out []*File
	for _, prefix := range []string{"", "pkg"} {
		for _, local := range []string{"", "example.org/local"} {
			f := NewFilePathName(local, "main")
			f.PackagePrefix = prefix
			out = append(out, f)
		}
	}
	return out
}

func checkUniq(t *testing.T, f *File, what string) {
	seen := map[string]string{}
	for p, d := range f.imports {
		if d.name == "_" || d.name == "." {
			continue
		}
		if q, dup := seen[d.name]; dup {
			t.Errorf("FAILING INPUT (%s, PackagePrefix=%q): paths %q and %q are both named %q", what, f.PackagePrefix, p, q, d.name)
		}
		seen[d.name] = p
	}
}

// register#post.uniq: distinct paths never share a name
func TestReplay_RegisterUniq(t *testing.T) {
	families := [][]string{
		{"a/d", "b/d"}, {"a/d", "b/d", "c/d"}, {"x/fmt", "fmt"}, {"fmt", "x/fmt"}, {"math/rand", "crypto/rand"},
		{"a/d1", "b/d", "c/d"}, {"a/pkg_d", "b/d", "c/d"}, {"a/for", "b/for"}, {"a/1", "b/2"},
	}
	for _, fam := range families {
		for _, f := range replayFiles() {
			for _, p := range fam {
				f.register(p)
			}
			checkUniq(t, f, fmt.Sprint(fam))
		}
	}
	// hints competing for a name
	for _, f := range replayFiles() {
		f.ImportName("a/x", "same")
		f.ImportAlias("b/y", "same")
		f.ImportName("c/z", "same")
		f.register("a/x")
		f.register("b/y")
		f.register("c/z")
		checkUniq(t, f, "hints same/same/same")
	}
}

// register#post.uniqC: the same for the "C" pseudo-package
func TestReplay_RegisterUniqC(t *testing.T) {
	for _, f := range replayFiles() {
		f.ImportName("example.org/c", "C")
		f.register("example.org/c")
		f.register("C")
		checkUniq(t, f, `ImportName("example.org/c","C") then Qual("C",...)`)
	}
	for _, f := range replayFiles() {
		f.ImportName("example.org/c", "C")
		f.register("C")
		f.register("example.org/c")
		checkUniq(t, f, `Qual("C",...) then ImportName("example.org/c","C")`)
	}
}

// register#post.legal: every chosen name is "." or an identifier that is neither keyword nor predeclared
func TestReplay_RegisterLegal(t *testing.T) {
	var words []string
	for tk := gotoken.BREAK; tk <= gotoken.VAR; tk++ {
		if tk.IsKeyword() {
			words = append(words, tk.String())
		}
	}
	words = append(words, types.Universe.Names()...)
	check := func(f *File, path, what string) {
		n := f.register(path)
		if n == "." {
			return
		}
		if !gotoken.IsIdentifier(n) || gotoken.IsKeyword(n) || types.Universe.Lookup(n) != nil {
			t.Errorf("FAILING INPUT (%s, PackagePrefix=%q): register(%q) chose the illegal name %q", what, f.PackagePrefix, path, n)
		}
	}
	for _, w := range words {
		for _, f := range replayFiles() {
			check(f, "example.org/x/"+w, "reserved word as last path element")
		}
		for _, f := range replayFiles() {
			f.ImportName("example.org/h", w)
			check(f, "example.org/h", "reserved word given through ImportName")
		}
		for _, f := range replayFiles() {
			f.ImportAlias("example.org/h", w)
			check(f, "example.org/h", "reserved word given through ImportAlias")
		}
	}
	for _, p := range []string{"a/1", "a/é", "a/b-c", "a/B.v2", "a/b/", "", "/", "a/_", "a/9lives", "a/..", "fmt", "math/rand"} {
		for _, f := range replayFiles() {
			check(f, p, "unusual path")
		}
	}
	// dot imports stay "."
	for _, f := range replayFiles() {
		f.ImportAlias("a/d", ".")
		check(f, "a/d", "dot import")
	}
}

// register#post.dot: a dot-import hint registers exactly {".", alias}
func TestReplay_RegisterDot(t *testing.T) {
	for _, f := range replayFiles() {
		f.ImportAlias("a/d", ".")
		f.ImportAlias("b/e", ".")
		for _, p := range []string{"a/d", "b/e"} {
			n := f.register(p)
			if n != "." || !f.imports[p].alias {
				t.Errorf("FAILING INPUT (PackagePrefix=%q): ImportAlias(%q, \".\") then register -> name %q alias=%v, want \".\" true", f.PackagePrefix, p, n, f.imports[p].alias)
			}
		}
	}
}
