package jen

// Witness searches for the null-ness and list obligations (C13): Group.isNull, Statement.isNull,
// Group.renderItems, Statement.render - items that are nil, Null() or made only of such items vanish
// from every list construct without leaving a separator; Empty() keeps its separator.

import (
	"fmt"
	"testing"
)

func TestReplay_NullItems(t *testing.T) {
	x := func() Code { return Id("x") }
	y := func() Code { return Id("y") }
	nulls := map[string]func() Code{
		"nil":                         func() Code { return nil },
		"Null()":                      func() Code { return Null() },
		"Add(nil, Null())":            func() Code { return Add(nil, Null()) },
		"List()":                      func() Code { return List() },
		"List(Null(), nil)":           func() Code { return List(Null(), nil) },
		"Union(Null())":               func() Code { return Union(Null()) },
		"Custom(no delims)(Null())":   func() Code { return Custom(Options{Separator: ","}, Null()) },
		"Custom(multi,no delims)":     func() Code { return Custom(Options{Multi: true}, Null(), nil) },
		"Tag(empty)":                  func() Code { return Tag(map[string]string{}) },
		"Values-less Dict":            func() Code { return Dict{Id("k"): Null()} },
		"(*Statement)(nil)":           func() Code { var s *Statement; return s },
		"(*Group)(nil)":               func() Code { var g *Group; return g },
	}
	lists := map[string]func(items ...Code) Code{
		"Call":   func(items ...Code) Code { return Id("f").Call(items...) },
		"Params": func(items ...Code) Code { return Id("f").Params(items...) },
		"List":   func(items ...Code) Code { return List(items...) },
		"Values": func(items ...Code) Code { return Values(items...) },
		"Index":  func(items ...Code) Code { return Id("a").Index(items...) },
		"Block":  func(items ...Code) Code { return Block(items...) },
		"Return": func(items ...Code) Code { return Return(items...) },
		"Case":   func(items ...Code) Code { return Case(items...) },
		"Union":  func(items ...Code) Code { return Union(items...) },
		"Custom": func(items ...Code) Code { return Custom(Options{Open: "<", Close: ">", Separator: ";"}, items...) },
		"Stmt":   func(items ...Code) Code { return Add(items...) },
	}
	render := func(c Code) string {
		f := NewFile("p")
		f.NoFormat = true
		f.Add(c)
		return fmt.Sprintf("%#v", f)
	}
	for ln, mk := range lists {
		want := render(mk(x(), y()))
		for nn, null := range nulls {
			if ln == "Values" && nn == "Values-less Dict" {
				continue // Values(Dict, x...) panics by design
			}
			for pos := 0; pos <= 2; pos++ {
				items := []Code{x(), y()}
				items = append(items[:pos], append([]Code{null()}, items[pos:]...)...)
				got := func() (s string) {
					defer func() {
						if r := recover(); r != nil {
							s = fmt.Sprint("panic: ", r)
						}
					}()
					return render(mk(items...))
				}()
				if got != want {
					t.Errorf("FAILING INPUT: %s with %s at position %d renders %q, without it %q", ln, nn, pos, got, want)
				}
			}
		}
	}
	if a, b := render(Id("a").Index(Empty(), x())), render(Id("a").Index(x())); a == b {
		t.Errorf("FAILING INPUT: Empty() is treated like a null item: Index(Empty(), x) renders %q", a)
	}
}
