package jen

// Witness searches for the failure-atomicity / error-propagation obligations (C10) of File.Render,
// Statement/Group RenderWithFile and Render: writers that fail in different ways, invalid trees.

import (
	"errors"
	"testing"
)

type scriptedWriter struct {
	calls  int
	bytes  int
	failAt int // 1-based call that fails; 0 = never
	mode   int // 0: (0, err)   1: (len(p), err)   2: (len(p)/2, err)
}

var errScripted = errors.New("scripted writer failure")

func (w *scriptedWriter) Write(p []byte) (int, error) {
	w.calls++
	if w.failAt != 0 && w.calls >= w.failAt {
		switch w.mode {
		case 1:
			w.bytes += len(p)
			return len(p), errScripted
		case 2:
			w.bytes += len(p) / 2
			return len(p) / 2, errScripted
		}
		return 0, errScripted
	}
	w.bytes += len(p)
	return len(p), nil
}

func validFile() *File {
	f := NewFile("p")
	f.HeaderComment("header")
	f.PackageComment("doc")
	f.Func().Id("a").Params().Block(Qual("fmt", "Println").Call(Lit(1)))
	return f
}

func invalidFile() *File {
	f := NewFile("p")
	f.Func().Id("a").Params().Block(Op("?").Op("?"))
	return f
}

func TestReplay_WriterErrors(t *testing.T) {
	entry := map[string]func(w *scriptedWriter) error{
		"File.Render":              func(w *scriptedWriter) error { return validFile().Render(w) },
		"File.Render(NoFormat)":    func(w *scriptedWriter) error { f := validFile(); f.NoFormat = true; return f.Render(w) },
		"Statement.Render":         func(w *scriptedWriter) error { return Id("a").Call().Render(w) },
		"Statement.RenderWithFile": func(w *scriptedWriter) error { return Qual("a/b", "C").Call().RenderWithFile(w, NewFile("p")) },
		"Group.Render":             func(w *scriptedWriter) error { return validFile().Group.Render(w) },
		"Group.RenderWithFile":     func(w *scriptedWriter) error { return validFile().Group.RenderWithFile(w, NewFile("p")) },
	}
	for name, run := range entry {
		for mode := 0; mode < 3; mode++ {
			w := &scriptedWriter{failAt: 1, mode: mode}
			err := run(w)
			if err == nil {
				t.Errorf("FAILING INPUT: %s with a writer whose first Write returns mode %d (0: (0,err) 1: (len,err) 2: (len/2,err)) returned nil", name, mode)
			}
			if w.calls > 1 {
				t.Errorf("FAILING INPUT: %s wrote %d times to a failing writer", name, w.calls)
			}
		}
		w := &scriptedWriter{}
		if err := run(w); err != nil {
			t.Errorf("%s failed on a healthy writer: %v", name, err)
		}
		if w.calls != 1 {
			t.Errorf("FAILING INPUT: %s performed %d writes on success (want exactly 1)", name, w.calls)
		}
	}
	// nothing is written when rendering fails
	for name, run := range map[string]func(w *scriptedWriter) error{
		"File.Render(invalid)":      func(w *scriptedWriter) error { return invalidFile().Render(w) },
		"Statement.Render(invalid)": func(w *scriptedWriter) error { return Op("?").Op("?").Render(w) },
		"Group.Render(invalid)":     func(w *scriptedWriter) error { return invalidFile().Group.Render(w) },
	} {
		w := &scriptedWriter{}
		err := run(w)
		if err == nil || w.calls != 0 || w.bytes != 0 {
			t.Errorf("FAILING INPUT: %s: err=%v, %d writes, %d bytes (want an error and nothing written)", name, err, w.calls, w.bytes)
		}
	}
}
