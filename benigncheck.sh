#!/bin/sh
# usage: benigncheck.sh <name>...   must-pass corpus: behaviour-preserving changes written by independent agents.
# Applies /verif/benign/<name>/patch.diff to a scratch copy of /repo's HEAD, runs the suite and every obligation of
# every unit against the copy; any VIOLATION line is a false alarm of the machinery.
export GOFLAGS=-mod=mod GOPROXY=off GOSUMDB=off GOTOOLCHAIN=local
cd /verif || exit 2
rc=0
for name in "$@"; do
	scratch=$(mktemp -d /var/tmp/jvc-benign.XXXXXX)
	(cd /repo && git archive HEAD) | tar -x -C "$scratch"
	if ! (cd "$scratch" && patch -s -p1 < "/verif/benign/$name/patch.diff"); then echo "$name: patch does not apply"; rm -rf "$scratch"; continue; fi
	cp "/verif/benign/$name/zz_benign_demo_test.go" "$scratch/jen/" 2>/dev/null
	if ! (cd "$scratch" && go test -vet=off -count=1 ./... >"$scratch/.suite" 2>&1); then echo "$name: suite or demo FAILS with the change"; tail -5 "$scratch/.suite"; fi
	rm -f "$scratch/jen/zz_benign_demo_test.go"
	JVC_REPO="$scratch" JVC_NO_EVIDENCE=1 GOFLAGS=-mod=vendor ./check all quick > "$scratch/.out" 2>&1
	code=$?
	if [ $code -eq 0 ] && ! grep -q '^VIOLATION' "$scratch/.out"; then
		echo "benign $name: no alarm ($(grep '^jvc:' "$scratch/.out" | cut -c1-120))"
	else
		echo "benign $name: FALSE ALARM (exit $code)"; grep -E '^VIOLATION|UNDECIDED' "$scratch/.out" | cut -c1-250; rc=1
	fi
	rm -rf "$scratch"
done
exit $rc
