#!/bin/sh
# usage: confirmseed.sh <id>       (seed written by a sub-agent in /var/tmp/wt_<id>/_seed/)
# Copies the seed to /verif/seeded/<id>/, confirms it in the scratch worktree (demo passes without the change,
# suite passes with it, demo fails with it), records the confirmation in meta.json, removes the worktree.
id="$1"; wt="/var/tmp/wt_$id"; prop=$(echo "$id" | cut -c1-3)
export GOFLAGS=-mod=mod GOPROXY=off GOSUMDB=off GOTOOLCHAIN=local
[ -f "$wt/_seed/patch.diff" ] || { echo "no seed in $wt/_seed"; exit 2; }
mkdir -p "/verif/seeded/$id" && cp "$wt"/_seed/* "/verif/seeded/$id/" || exit 2
cd "$wt" || exit 2
git checkout -- . 2>/dev/null
git ls-files -m | grep -v zz_contracts | grep . && { echo "worktree not clean after checkout"; }
cp "/verif/seeded/$id/zz_seed_demo_test.go" jen/zz_seed_demo_test.go
go test -vet=off -count=1 -run 'TestSeedDemo$' ./jen >/var/tmp/cs_$id.1 2>&1; a=$?
git apply "/verif/seeded/$id/patch.diff" || { echo "patch does not apply"; exit 2; }
go test -vet=off -count=1 -skip 'TestSeedDemo$' ./... >/var/tmp/cs_$id.2 2>&1; b=$?
go test -vet=off -count=1 -run 'TestSeedDemo$' ./jen >/var/tmp/cs_$id.3 2>&1; c=$?
echo "$id: demo-without=$a (want 0) suite-with=$b (want 0) demo-with=$c (want 1)"
if [ $a -eq 0 ] && [ $b -eq 0 ] && [ $c -ne 0 ]; then
	python3 - "$id" "$prop" <<'EOF'
import json,sys
id,prop=sys.argv[1],sys.argv[2]
p=f"/verif/seeded/{id}/meta.json"
try: m=json.load(open(p))
except Exception: m={}
m["property"]=prop
m["confirmed_in_scratch_worktree"]={"worktree":f"/var/tmp/wt_{id} (removed afterwards)","ran":[
 "git checkout -- .; go test -run 'TestSeedDemo$' ./jen -> ok without the change",
 "git apply patch.diff; go test -vet=off -count=1 -skip 'TestSeedDemo$' ./... -> all packages ok with the change",
 "go test -vet=off -count=1 -run 'TestSeedDemo$' ./jen -> FAIL with the change"],
 "suite_passes_with_change":True,"demo_fails_with_change":True,"demo_passes_without_change":True}
json.dump(m,open(p,"w"),indent=1)
EOF
	cd /verif && git -C /repo worktree remove --force "$wt" && echo "$id confirmed; worktree removed"
	rm -f /var/tmp/cs_$id.*
else
	echo "$id NOT confirmed; see /var/tmp/cs_$id.[123]"; exit 1
fi
