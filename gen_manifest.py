#!/usr/bin/env python3
# Regenerates MANIFEST.json from the table below (claimed checks + not_applicable reasons).
import json, subprocess
BASE_CMD = "cd /repo && go test -mod=mod -json -vet=off -count=1 -timeout 25m ./..."
hook_commits = subprocess.run(["git","-C","/repo","log","--format=%h %s"],capture_output=True,text=True).stdout.splitlines()
hooks = [l.split()[0] for l in hook_commits if l.split(' ',1)[1].startswith("verif hook")]
claimed = json.load(open("/verif/claims.json"))
props = [json.loads(l) for l in open("/verif/properties.jsonl")]
checks=[]; na=[]
for p in props:
    pid=p["id"]
    c=claimed.get(pid)
    if c and c.get("claimed"):
        checks.append({
          "property_id": pid,
          "quick_cmd": f"./check {pid} quick",
          "thorough_cmd": f"./check {pid} thorough",
          "evidence_file": f"/verif/evidence/{pid}.json",
          "replay_cmd_template": "./check replay {path}",
          "engine": "jvc",
          "technique": "contract-based deductive verification: weakest-precondition style VC generation over go/ssa of the real functions, contracts in /repo/jen/zz_contracts_verif.go, obligations discharged by z3/cvc5",
          "level_claimed": {"category":"proof","text":c["text"],"design_ref":c.get("design_ref","DESIGN.md section 3 / "+pid)},
          "level_note": c["note"],
        })
    else:
        na.append({"property_id":pid,"reason":(c or {}).get("reason","contracts for the functions this property depends on are not written yet; no weaker technique is substituted")})
m={"version":1,
   "setup_cmd":"cd /verif && ./check build",
   "hooks":{"guard":"verif","enable":"go build -tags verif ./... (the only hook is the comment-only contract file jen/zz_contracts_verif.go, read by jvc)",
            "baseline_off_cmd":BASE_CMD,"source_commits":hooks,"add_only":True},
   "engines":[{"name":"jvc","path":"/verif/jvc","serves_properties":[c["property_id"] for c in checks],
               "kind_free_text":"purpose-built deductive verifier for the Go subset jennifer uses: symbolic execution of go/ssa per function against //@ contracts (requires/ensures/modifies/loop invariants), callee contracts at call sites, explicit heap/slice/map model, SMT-LIB obligations raced on z3 5.1.0, z3 4.8.12 and cvc5 1.0; witness-search replays injected with go test -overlay"}],
   "checks":checks,
   "not_applicable":na,
   "notes":"Each claimed check proves the obligations tagged with its property on every contracted function involved, plus that function's structural obligations (preconditions of callees, loop invariants, panic-freedom). Obligations tagged only with other properties are assumed there and proved by those properties' checks. See DESIGN.md."}
json.dump(m,open("/verif/MANIFEST.json","w"),indent=1)
print("claimed:",[c["property_id"] for c in checks])
