#!/bin/sh
# usage: seedcheck.sh <seed-dir-name> <property> [more properties...]
# Applies /verif/seeded/<name>/patch.diff to a scratch copy of /repo's HEAD (outside /repo and /verif), runs the
# given property checks against the copy (no evidence is written), removes the copy.
name="$1"; shift
scratch=$(mktemp -d /var/tmp/jvc-seed.XXXXXX)
(cd /repo && git archive HEAD) | tar -x -C "$scratch"
if ! (cd "$scratch" && patch -s -p1 < "/verif/seeded/$name/patch.diff"); then echo "patch does not apply"; rm -rf "$scratch"; exit 2; fi
for p in "$@"; do
  echo "== $name under $p"
  (cd /verif && JVC_REPO="$scratch" JVC_NO_EVIDENCE=1 ./check "$p" quick 2>&1 | grep -E 'VIOLATION|UNDECIDED|KNOWN|^jvc:' | cut -c1-260 | head -12; )
done
rm -rf "$scratch"
