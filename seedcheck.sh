#!/bin/sh
# usage: seedcheck.sh <seed-dir-name> <property> [more properties...]
# Applies /verif/seeded/<name>/patch.diff to /repo, runs the given property checks, reverts.
name="$1"; shift
cd /repo || exit 2
if ! git diff --quiet; then echo "repo not clean"; exit 2; fi
git apply "/verif/seeded/$name/patch.diff" || { echo "patch does not apply"; exit 2; }
for p in "$@"; do
  echo "== $name under $p"
  (cd /verif && JVC_NO_EVIDENCE=1 ./check "$p" quick 2>&1 | grep -E 'VIOLATION|UNDECIDED|KNOWN|^jvc:' | cut -c1-260 | head -12; )
done
git -C /repo checkout -- .
